#!/usr/bin/env python3
"""Regenerates /verif/MANIFEST.json from tools/claims.json (one entry per claimed property) and
properties.jsonl; properties without an entry are listed under not_applicable with the reason in
tools/not_applicable.json."""
import json, subprocess, os
V = '/verif'
props = [json.loads(l) for l in open(f'{V}/properties.jsonl')]
claims = json.load(open(f'{V}/tools/claims.json'))
na = json.load(open(f'{V}/tools/not_applicable.json'))
hooks = subprocess.run(['git', '-C', '/repo', 'log', '--format=%H %s'], capture_output=True, text=True).stdout.splitlines()
hook_commits = [l.split()[0] for l in hooks if l.split(' ', 1)[1].startswith('verif:')]
m = {
 "version": 1,
 "setup_cmd": "cd /verif/engine && GOFLAGS=-mod=mod GOPROXY=off GOSUMDB=off GOTOOLCHAIN=local go build -o /verif/bin/govc ./cmd/govc",
 "hooks": {"guard": "verif",
           "enable": "-tags=verif: only comment-only contract files zz_contracts_verif.go carry the tag; the engine loads /repo with it, no executable hook exists",
           "baseline_off_cmd": "cd /repo && GOFLAGS=-mod=mod GOPROXY=off GOSUMDB=off go test -vet=off -count=1 ./...",
           "source_commits": hook_commits, "add_only": True},
 "engines": [{"name": "govc", "path": "/verif/engine", "serves_properties": sorted(claims.keys()),
              "kind_free_text": "contract-based deductive verifier for Go written for this task: go/packages+go/ssa of /repo's working tree -> weakest-precondition style verification conditions over a typed field-array heap -> z3 4.8.12 / z3 5.1.0 / cvc5 1.0 (raced); contracts are //@ comments in verif-tagged files next to the code; counterexamples are replayed on the real code through go test -overlay"}],
 "checks": [], "not_applicable": [],
 "notes": "Every check reloads /repo's working tree on every run. DESIGN.md sections 6 and 10 give, per property, what is proved, what is bounded, what is assumed and what is not decided."}
for p in props:
    pid = p['id']
    if pid in claims:
        c = claims[pid]
        m['checks'].append({
            "property_id": pid,
            "quick_cmd": f"./bin/govc check {pid} --tier quick",
            "thorough_cmd": f"./bin/govc check {pid} --tier thorough",
            "evidence_file": f"evidence/{pid}.json",
            "replay_cmd_template": "./bin/govc replay {path}",
            "engine": "govc",
            "level_claimed": {"category": c.get("category", "proof"), "text": c["text"], "design_ref": c.get("design_ref", "DESIGN.md section 6")},
            "level_note": c["note"],
            "technique": c.get("technique", "contract-based deductive verification: per-function contracts on the real code, VCs generated from go/ssa, discharged by z3/cvc5")})
    else:
        m['not_applicable'].append({"property_id": pid, "reason": na.get(pid, "no check built")})
json.dump(m, open(f'{V}/MANIFEST.json', 'w'), indent=1)
print(len(m['checks']), 'checks;', len(m['not_applicable']), 'not applicable')
