#!/bin/bash
# runs the quick tier of every claimed check against /repo's working tree; prints one line per property
cd /verif
tier=${1:-quick}
for p in $(python3 -c "import json;print(' '.join(sorted(json.load(open('tools/claims.json')))))"); do
  s=$(date +%s)
  out=$(./bin/govc check $p --tier $tier 2>&1); rc=$?
  e=$(( $(date +%s) - s ))
  echo "$p rc=$rc ${e}s :: $(echo "$out" | tail -1)"
  if [ $rc -ne 0 ]; then echo "$out" | grep -E "^(FAILED|VIOLATION|KNOWN)" | head -10; fi
done
