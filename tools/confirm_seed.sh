#!/bin/bash
# usage: confirm_seed.sh <scratch-worktree> <seed-dir> <seed-id> <demo-package-dir> <properties...>
# Confirms a seeded change independently (suite passes with it; demo fails with it and passes without),
# stores it under /verif/seeded/<seed-id>/ and runs the named property checks against it in /repo.
set -u
export GOFLAGS=-mod=mod GOPROXY=off GOSUMDB=off GOTOOLCHAIN=local
WT=$1; SD=$2; ID=$3; PKG=$4; shift 4
OUT=/verif/seeded/$ID
mkdir -p $OUT
cp $SD/patch.diff $SD/demo_test.go $SD/meta.json $OUT/ 2>/dev/null
cd $WT
git checkout -q -- pkg 2>/dev/null; find $WT -name zz_contracts_verif.go -delete
git apply $OUT/patch.diff || { echo "PATCH DOES NOT APPLY"; exit 1; }
go build ./... || { echo "DOES NOT BUILD"; exit 1; }
SUITE=$(go test -vet=off -count=1 ./pkg/... ./cmd/... 2>&1 | grep -c "^FAIL\|^---\s*FAIL")
cp $OUT/demo_test.go $WT/$PKG/zz_seed_demo_test.go
go test -vet=off -count=1 -run 'Demo|demo|Seed|Test_C0' ./$PKG/ > /tmp/demo_with.txt 2>&1; WITH=$?
git apply -R $OUT/patch.diff
go test -vet=off -count=1 -run 'Demo|demo|Seed|Test_C0' ./$PKG/ > /tmp/demo_without.txt 2>&1; WITHOUT=$?
rm -f $WT/$PKG/zz_seed_demo_test.go
echo "suite failures with patch: $SUITE; demo exit with patch: $WITH (want !=0); without: $WITHOUT (want 0)"
CONFIRMED=no; [ "$SUITE" = "0" ] && [ "$WITH" != "0" ] && [ "$WITHOUT" = "0" ] && CONFIRMED=yes
# run the checks against the change in /repo
cd /repo && git apply $OUT/patch.diff || { echo "patch does not apply to /repo"; exit 1; }
RES=""
for P in "$@"; do
  OUTP=$(cd /verif && ./bin/govc check $P 2>&1)
  RC=$?
  N=$(echo "$OUTP" | grep -c "^VIOLATION")
  FIRST=$(echo "$OUTP" | grep "^FAILED" | head -3 | sed 's/FAILED property=[A-Z0-9]* obligation=//' | tr '\n' ';')
  RES="$RES $P:rc=$RC,violations=$N[$FIRST]"
done
git -C /repo checkout -- pkg
echo "checks:$RES"
python3 - <<PY
import json
m=json.load(open('$OUT/meta.json'))
m['confirmed_independently']='$CONFIRMED'
m['confirmation']='tools/confirm_seed.sh: full pkg+cmd suite with patch: $SUITE failing tests; demo with patch exit $WITH; demo without patch exit $WITHOUT'
m['checks_run_against_it']='''$RES'''.strip()
m['demo_package']='$PKG'
json.dump(m,open('$OUT/meta.json','w'),indent=1)
PY
