package main

import (
	"fmt"
	"os"

	"govc/govc"
)

func main() {
	if len(os.Args) < 2 {
		fmt.Fprintln(os.Stderr, "usage: govc check <property> [--tier quick|thorough] | verify <function-key> | replay <file> | selftest")
		os.Exit(2)
	}
	os.Exit(govc.Main(os.Args[1:]))
}
