package main

import (
	"fmt"
	"os"

	"golang.org/x/tools/go/packages"
	"golang.org/x/tools/go/ssa"
	"golang.org/x/tools/go/ssa/ssautil"
)

func main() {
	cfg := &packages.Config{Mode: packages.LoadAllSyntax, Dir: "/repo", BuildFlags: []string{"-tags=verif"}}
	pkgs, err := packages.Load(cfg, "./pkg/...")
	if err != nil {
		fmt.Println(err)
		os.Exit(2)
	}
	prog, spkgs := ssautil.AllPackages(pkgs, ssa.InstantiateGenerics|ssa.GlobalDebug)
	prog.Build()
	fmt.Println(len(pkgs), len(spkgs))
}
