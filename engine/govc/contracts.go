package govc

import (
	"bufio"
	"fmt"
	"os"
	"path/filepath"
	"regexp"
	"sort"
	"strconv"
	"strings"
)

type Clause struct {
	Kind    string // requires | ensures | invariant | lemma
	Label   string
	Props   []string
	Src     string
	E       Expr
	Loop    int
	File    string
	Line    int
	Guard   bool // requires clause that is a write guard (reported as guard.*)
	Assumed bool // ensures clause that is assumed at call sites but not proved in the body (ghost bookkeeping)
}

type Contract struct {
	Kind        string // func | iface
	Key         string
	Display     string
	ParamNames  []string
	ResultNames []string
	Requires    []*Clause
	Ensures     []*Clause
	Invariants  map[int][]*Clause
	BackEdges   map[int][]*Clause // must hold whenever the loop goes round again (not assumed at the head)
	Modifies    []Expr
	ModSrc      []string
	HasModifies bool
	ModAll      bool
	Pure        bool // no effect on the modelled heap, result unconstrained except by ensures
	Trusted     bool // contract is assumed (library / interface), never verified
	NoInline    bool
	Inlined     bool // verified on its own (its body is swept), but callers still see its body, not this contract
	Safe        bool     // emit safe.* obligations for this function
	Fresh       []string // result expressions that are freshly allocated
	Props       []string // properties this function is verified for
	Probes      []*Clause
	Implements  string // key of an interface contract this function must refine
	Reveal      []string
	Use         []string // lemmas (proved separately, with definitions revealed) assumed in this function's proof
	File        string
	Line        int
	PkgPath     string
	Imports     map[string]string
}

type SpecFn struct {
	Name     string
	Params   []Binder
	Ret      string
	Body     Expr
	Src      string
	Uninterp bool
	Opaque   bool // has a body, but is handed to the solver uninterpreted unless a contract reveals it
	Imports  map[string]string
	PkgPath  string
	File     string
}

type GhostVar struct {
	Name    string
	Type    string // int | bool | string | map[K]V (K,V in int|string|bool)
	Imports map[string]string
	PkgPath string
}

type Lemma struct {
	Name    string
	Props   []string
	E       Expr
	Src     string
	Imports map[string]string
	PkgPath string
	File    string
	Line    int
}

type ContractSet struct {
	ByKey  map[string]*Contract
	Specs  map[string]*SpecFn
	Ghosts map[string]*GhostVar
	Lemmas []*Lemma
	Files  []string
	// textual scan for forbidden constructs
	Assumes        []string
	AssumedClauses []string
}

func NewContractSet() *ContractSet {
	return &ContractSet{ByKey: map[string]*Contract{}, Specs: map[string]*SpecFn{}, Ghosts: map[string]*GhostVar{}}
}

var labelRe = regexp.MustCompile(`^(\{[A-Z0-9, ]+\}\s*)?([A-Za-z][A-Za-z0-9_.\-]*):(\s|$)`)
var propsRe = regexp.MustCompile(`^\{([A-Z0-9, ]+)\}\s*`)
var keywordRe = regexp.MustCompile(`^(assumed|use|opaque|reveal|import|ghost|uninterp|spec|func|iface|requires|guard|ensures|modifies|loop|pure|trusted|noinline|inlined|safe|fresh|lemma|params|results|props|probe|implements)\b`)

// LoadFile parses one contract file. pkgPath is the import path of the package the file sits in
// ("" for library spec files, where names must be qualified). trusted marks every contract assumed.
func (cs *ContractSet) LoadFile(file, pkgPath string, trusted bool) error {
	f, err := os.Open(file)
	if err != nil {
		return err
	}
	defer f.Close()
	cs.Files = append(cs.Files, file)
	type item struct {
		line int
		text string
	}
	var items []item
	sc := bufio.NewScanner(f)
	sc.Buffer(make([]byte, 1<<20), 1<<20)
	ln := 0
	for sc.Scan() {
		ln++
		t := strings.TrimSpace(sc.Text())
		if !strings.HasPrefix(t, "//@") {
			continue
		}
		t = strings.TrimSpace(t[3:])
		if t == "" || strings.HasPrefix(t, "#") {
			continue
		}
		// strip trailing comment introduced by " // "
		if i := strings.Index(t, " // "); i >= 0 && !strings.Contains(t[:i], "\"") {
			t = strings.TrimSpace(t[:i])
		}
		if keywordRe.MatchString(t) || len(items) == 0 {
			items = append(items, item{ln, t})
		} else {
			items[len(items)-1].text += " " + t
		}
	}
	imports := map[string]string{}
	var cur *Contract
	fail := func(it item, f string, a ...interface{}) error {
		return fmt.Errorf("%s:%d: %s", file, it.line, fmt.Sprintf(f, a...))
	}
	for _, it := range items {
		kw := keywordRe.FindString(it.text)
		rest := strings.TrimSpace(it.text[len(kw):])
		switch kw {
		case "import":
			parts := strings.Fields(rest)
			if len(parts) != 2 {
				return fail(it, "import wants: alias \"path\"")
			}
			imports[parts[0]] = strings.Trim(parts[1], "\"")
		case "ghost":
			parts := strings.Fields(rest)
			if len(parts) != 2 {
				return fail(it, "ghost wants: name type")
			}
			cs.Ghosts[parts[0]] = &GhostVar{Name: parts[0], Type: parts[1], Imports: imports, PkgPath: pkgPath}
		case "opaque":
			if !strings.HasPrefix(rest, "spec ") {
				return fail(it, "opaque wants: opaque spec name(...) T = expr")
			}
			sf, err := parseSpecFn(strings.TrimSpace(rest[5:]), false)
			if err != nil {
				return fail(it, "%v", err)
			}
			sf.Opaque = true
			sf.Imports = imports
			sf.PkgPath = pkgPath
			sf.File = file
			cs.Specs[sf.Name] = sf
		case "use":
			if cur == nil {
				return fail(it, "use outside func")
			}
			cur.Use = append(cur.Use, strings.Fields(strings.ReplaceAll(rest, ",", " "))...)
		case "reveal":
			if cur == nil {
				return fail(it, "reveal outside func")
			}
			cur.Reveal = append(cur.Reveal, strings.Fields(strings.ReplaceAll(rest, ",", " "))...)
		case "uninterp", "spec":
			sf, err := parseSpecFn(rest, kw == "uninterp")
			if err != nil {
				return fail(it, "%v", err)
			}
			sf.Imports = imports
			sf.PkgPath = pkgPath
			sf.File = file
			cs.Specs[sf.Name] = sf
		case "lemma":
			c, err := parseClause("lemma", rest, file, it.line)
			if err != nil {
				return fail(it, "%v", err)
			}
			cs.Lemmas = append(cs.Lemmas, &Lemma{Name: c.Label, Props: c.Props, E: c.E, Src: c.Src, Imports: imports, PkgPath: pkgPath, File: file, Line: it.line})
		case "func", "iface":
			name, params, results, err := parseFuncHeader(rest)
			if err != nil {
				return fail(it, "%v", err)
			}
			key := resolveFuncName(name, pkgPath, imports)
			cur = &Contract{Kind: kw, Key: key, Display: name, ParamNames: params, ResultNames: results,
				Invariants: map[int][]*Clause{}, BackEdges: map[int][]*Clause{}, Trusted: trusted || kw == "iface", File: file, Line: it.line, PkgPath: pkgPath, Imports: imports}
			if old, dup := cs.ByKey[key]; dup {
				return fail(it, "duplicate contract for %s (first at %s:%d)", key, old.File, old.Line)
			}
			cs.ByKey[key] = cur
		case "assumed":
			if cur == nil || !strings.HasPrefix(rest, "ensures ") {
				return fail(it, "assumed wants: assumed ensures expr (inside a func)")
			}
			c, err := parseClause("ensures", strings.TrimSpace(rest[8:]), file, it.line)
			if err != nil {
				return fail(it, "%v", err)
			}
			c.Assumed = true
			cur.Ensures = append(cur.Ensures, c)
			cs.AssumedClauses = append(cs.AssumedClauses, fmt.Sprintf("%s: %s", cur.Display, c.Src))
		case "requires", "guard", "ensures":
			if cur == nil {
				return fail(it, "%s outside func", kw)
			}
			kind := kw
			if kw == "guard" {
				kind = "requires"
			}
			c, err := parseClause(kind, rest, file, it.line)
			if err != nil {
				return fail(it, "%v", err)
			}
			c.Guard = kw == "guard"
			if kind == "requires" {
				cur.Requires = append(cur.Requires, c)
			} else {
				cur.Ensures = append(cur.Ensures, c)
			}
		case "loop":
			if cur == nil {
				return fail(it, "loop outside func")
			}
			parts := strings.SplitN(rest, " ", 3)
			if len(parts) < 3 || (parts[1] != "invariant" && parts[1] != "backedge") {
				return fail(it, "loop wants: N invariant|backedge expr")
			}
			n, err := strconv.Atoi(parts[0])
			if err != nil {
				return fail(it, "bad loop ordinal")
			}
			c, err := parseClause("invariant", parts[2], file, it.line)
			if err != nil {
				return fail(it, "%v", err)
			}
			c.Loop = n
			if parts[1] == "backedge" {
				c.Kind = "backedge"
				cur.BackEdges[n] = append(cur.BackEdges[n], c)
			} else {
				cur.Invariants[n] = append(cur.Invariants[n], c)
			}
		case "modifies":
			if cur == nil {
				return fail(it, "modifies outside func")
			}
			cur.HasModifies = true
			switch rest {
			case "nothing":
			case "everything":
				cur.ModAll = true
			default:
				for _, part := range splitTop(rest, ',') {
					e, err := ParseExpr(part)
					if err != nil {
						return fail(it, "%v", err)
					}
					cur.Modifies = append(cur.Modifies, e)
					cur.ModSrc = append(cur.ModSrc, strings.TrimSpace(part))
				}
			}
		case "fresh":
			if cur == nil {
				return fail(it, "fresh outside func")
			}
			for _, part := range splitTop(rest, ',') {
				cur.Fresh = append(cur.Fresh, strings.TrimSpace(part))
			}
		case "props":
			if cur == nil {
				return fail(it, "props outside func")
			}
			for _, p := range strings.FieldsFunc(rest, func(r rune) bool { return r == ',' || r == ' ' }) {
				cur.Props = append(cur.Props, p)
			}
		case "probe":
			if cur == nil {
				return fail(it, "probe outside func")
			}
			c, err := parseClause("probe", rest, file, it.line)
			if err != nil {
				return fail(it, "%v", err)
			}
			cur.Probes = append(cur.Probes, c)
		case "implements":
			if cur == nil {
				return fail(it, "implements outside func")
			}
			cur.Implements = resolveFuncName(strings.TrimSpace(rest), pkgPath, imports)
		case "pure":
			if cur == nil {
				return fail(it, "pure outside func")
			}
			cur.Pure = true
			cur.HasModifies = true
		case "trusted":
			if cur == nil {
				return fail(it, "trusted outside func")
			}
			cur.Trusted = true
		case "noinline":
			if cur != nil {
				cur.NoInline = true
			}
		case "inlined":
			if cur != nil {
				cur.Inlined = true
			}
		case "safe":
			if cur != nil {
				cur.Safe = true
			}
		default:
			return fail(it, "cannot parse %q", it.text)
		}
		if strings.HasPrefix(it.text, "assume ") {
			cs.Assumes = append(cs.Assumes, fmt.Sprintf("%s:%d", file, it.line))
		}
	}
	return nil
}

func splitTop(s string, sep byte) []string {
	var out []string
	d := 0
	last := 0
	inStr := false
	for i := 0; i < len(s); i++ {
		c := s[i]
		if inStr {
			if c == '\\' {
				i++
			} else if c == '"' {
				inStr = false
			}
			continue
		}
		switch c {
		case '"':
			inStr = true
		case '(', '[':
			d++
		case ')', ']':
			d--
		default:
			if c == sep && d == 0 {
				out = append(out, s[last:i])
				last = i + 1
			}
		}
	}
	out = append(out, s[last:])
	return out
}

func parseClause(kind, rest, file string, line int) (*Clause, error) {
	c := &Clause{Kind: kind, File: file, Line: line}
	if m := propsRe.FindStringSubmatch(rest); m != nil {
		for _, p := range strings.Split(m[1], ",") {
			c.Props = append(c.Props, strings.TrimSpace(p))
		}
		rest = rest[len(m[0]):]
	}
	if m := labelRe.FindStringSubmatch(rest); m != nil && !strings.HasPrefix(rest[len(m[2]):], "::") {
		c.Label = m[2]
		rest = strings.TrimSpace(rest[len(m[2])+1:])
	}
	c.Src = rest
	e, err := ParseExpr(rest)
	if err != nil {
		return nil, err
	}
	c.E = e
	if c.Label == "" {
		c.Label = fmt.Sprintf("L%d", line)
	}
	return c, nil
}

// parseFuncHeader parses `NAME`, `NAME(p1, p2)` or `NAME(p1, p2) (r1, r2)`; NAME may be
// `(*T).M`, `T.M`, `pkg.F`, `(*pkg.T).M`, `Outer$1`.
func parseFuncHeader(s string) (name string, params, results []string, err error) {
	s = strings.TrimSpace(s)
	// the name ends at the first '(' that is not at position 0 and not part of "(*T)" prefix
	i := 0
	if strings.HasPrefix(s, "(") {
		j := strings.Index(s, ")")
		if j < 0 {
			return "", nil, nil, fmt.Errorf("bad function name %q", s)
		}
		i = j + 1
	}
	k := strings.Index(s[i:], "(")
	if k < 0 {
		return strings.TrimSpace(s), nil, nil, nil
	}
	name = strings.TrimSpace(s[:i+k])
	rest := s[i+k:]
	j := strings.Index(rest, ")")
	if j < 0 {
		return "", nil, nil, fmt.Errorf("bad parameter list in %q", s)
	}
	params = fieldsComma(rest[1:j])
	rest = strings.TrimSpace(rest[j+1:])
	if strings.HasPrefix(rest, "(") {
		j := strings.Index(rest, ")")
		if j < 0 {
			return "", nil, nil, fmt.Errorf("bad result list in %q", s)
		}
		results = fieldsComma(rest[1:j])
	} else if rest != "" {
		results = []string{rest}
	}
	return
}

func fieldsComma(s string) []string {
	var out []string
	for _, p := range strings.Split(s, ",") {
		p = strings.TrimSpace(p)
		if p != "" {
			// allow "name type": keep the name only
			out = append(out, strings.Fields(p)[0])
		}
	}
	return out
}

// resolveFuncName turns a contract-file function name into the key used by go/ssa
// (ssa.Function.String() / types.Func.FullName()).
func resolveFuncName(name, pkgPath string, imports map[string]string) string {
	qual := func(t string) string { // t = "T" or "alias.T"
		if i := strings.LastIndex(t, "."); i >= 0 {
			alias := t[:i]
			if p, ok := imports[alias]; ok {
				return p + "." + t[i+1:]
			}
			return t
		}
		return pkgPath + "." + t
	}
	if strings.HasPrefix(name, "(") {
		j := strings.Index(name, ")")
		recv := name[1:j]
		meth := strings.TrimPrefix(name[j+1:], ".")
		if strings.HasPrefix(recv, "*") {
			return "(*" + qual(recv[1:]) + ")." + meth
		}
		return "(" + qual(recv) + ")." + meth
	}
	// pkg.F, F, T.M (value receiver method or interface method), pkg.T.M
	parts := strings.Split(name, ".")
	switch len(parts) {
	case 1:
		return pkgPath + "." + name
	case 2:
		if p, ok := imports[parts[0]]; ok {
			return p + "." + parts[1]
		}
		// T.M in the current package
		return "(" + pkgPath + "." + parts[0] + ")." + parts[1]
	case 3:
		if p, ok := imports[parts[0]]; ok {
			return "(" + p + "." + parts[1] + ")." + parts[2]
		}
	}
	return name
}

func parseSpecFn(s string, uninterp bool) (*SpecFn, error) {
	i := strings.Index(s, "(")
	if i < 0 {
		return nil, fmt.Errorf("spec wants name(params) type [= expr]")
	}
	sf := &SpecFn{Name: strings.TrimSpace(s[:i]), Uninterp: uninterp, Src: s}
	// find matching paren
	d := 0
	j := i
	for ; j < len(s); j++ {
		if s[j] == '(' {
			d++
		} else if s[j] == ')' {
			d--
			if d == 0 {
				break
			}
		}
	}
	if j >= len(s) {
		return nil, fmt.Errorf("unbalanced parameter list")
	}
	for _, p := range splitTop(s[i+1:j], ',') {
		p = strings.TrimSpace(p)
		if p == "" {
			continue
		}
		fs := strings.Fields(p)
		if len(fs) == 1 {
			if uninterp {
				sf.Params = append(sf.Params, Binder{Name: fmt.Sprintf("a%d", len(sf.Params)), Type: fs[0]})
			} else {
				sf.Params = append(sf.Params, Binder{Name: fs[0], Type: ""})
			}
		} else {
			sf.Params = append(sf.Params, Binder{Name: fs[0], Type: strings.Join(fs[1:], "")})
		}
	}
	// propagate types backwards for "x, y string"
	for k := len(sf.Params) - 2; k >= 0; k-- {
		if sf.Params[k].Type == "" {
			sf.Params[k].Type = sf.Params[k+1].Type
		}
	}
	rest := strings.TrimSpace(s[j+1:])
	if uninterp {
		sf.Ret = rest
		return sf, nil
	}
	eq := strings.Index(rest, "=")
	if eq < 0 {
		return nil, fmt.Errorf("spec function needs '= body'")
	}
	sf.Ret = strings.TrimSpace(rest[:eq])
	body, err := ParseExpr(rest[eq+1:])
	if err != nil {
		return nil, err
	}
	sf.Body = body
	return sf, nil
}

// LoadRepoContracts finds zz_contracts_verif.go files under root and loads them.
func (cs *ContractSet) LoadRepoContracts(root, modPath string) error {
	var files []string
	err := filepath.Walk(root, func(p string, info os.FileInfo, err error) error {
		if err != nil {
			return nil
		}
		if info.IsDir() && (info.Name() == ".git" || info.Name() == "vendor") {
			return filepath.SkipDir
		}
		if !info.IsDir() && info.Name() == "zz_contracts_verif.go" {
			files = append(files, p)
		}
		return nil
	})
	if err != nil {
		return err
	}
	sort.Strings(files)
	for _, f := range files {
		rel, _ := filepath.Rel(root, filepath.Dir(f))
		pkgPath := modPath
		if rel != "." {
			pkgPath = modPath + "/" + filepath.ToSlash(rel)
		}
		if err := cs.LoadFile(f, pkgPath, false); err != nil {
			return err
		}
	}
	return nil
}

func (cs *ContractSet) LoadLibSpecs(dir string) error {
	files, _ := filepath.Glob(filepath.Join(dir, "*.spec"))
	sort.Strings(files)
	for _, f := range files {
		if err := cs.LoadFile(f, "", true); err != nil {
			return err
		}
	}
	return nil
}
