package govc

import (
	"fmt"
	"os"
	"sort"
	"strings"
	"sync"
	"time"
)

var VerifDir = "/verif"
var RepoDir = "/repo"

func Main(args []string) int {
	defer CleanupScratch()
	if d := os.Getenv("GOVC_REPO"); d != "" {
		RepoDir = d
	}
	if d := os.Getenv("GOVC_VERIF"); d != "" {
		VerifDir = d
	}
	switch args[0] {
	case "verify":
		return cmdVerify(args[1:])
	case "check":
		return cmdCheck(args[1:])
	case "expect":
		return cmdExpect(args[1:])
	case "sweep":
		return cmdSweep(args[1:])
	case "replay":
		return cmdReplay(args[1:])
	case "selftest":
		return cmdSelftest(args[1:])
	}
	fmt.Fprintln(os.Stderr, "unknown command", args[0])
	return 2
}

func loadAll() (*Engine, error) {
	e, err := Load(RepoDir, nil)
	if err != nil {
		return nil, err
	}
	if err := e.LoadContracts(VerifDir + "/contracts/lib"); err != nil {
		return nil, err
	}
	return e, nil
}

// solveAll discharges obligations in parallel.
func solveAll(obls []*Obligation, timeoutS int, all bool, seed int) []SolveResult {
	res := make([]SolveResult, len(obls))
	sem := make(chan struct{}, 6)
	var wg sync.WaitGroup
	for i, o := range obls {
		wg.Add(1)
		sem <- struct{}{}
		go func(i int, o *Obligation) {
			defer wg.Done()
			defer func() { <-sem }()
			// first the cone-of-influence slice (sound for unsat); the full query only if that does not settle it
			if !o.ExpectSat && os.Getenv("GOVC_NO_SLICE") == "" {
				st := timeoutS
				if st > 10 {
					st = 10
				}
				res[i] = Solve(o.SlicedQuery(seed), st, all, o.Probes)
				if res[i].Status == "unsat" {
					res[i].Sliced = true
					return
				}
			}
			if o.ExpectSat && o.Label == "return" {
				// reachability witness: only a quick definite answer is of interest
				res[i] = SolveQuick(o.RelaxedQuery(seed), 2)
				return
			}
			res[i] = Solve(o.Query(seed), timeoutS, all, o.Probes)
			if !o.ExpectSat && res[i].Status != "unsat" && res[i].Status != "sat" && res[i].Status != "error" {
				// undecided: look for a candidate counterexample without the quantified loop frames
				r2 := Solve(o.RelaxedQuery(seed), 10, false, o.Probes)
				if r2.Status == "sat" || (res[i].Model == nil && r2.Model != nil) {
					res[i].Model = r2.Model
					res[i].Raw = "full query: " + res[i].Status + "; candidate model from the query without quantified loop-frame facts (" + r2.Solver + "):\n" + r2.Raw
					res[i].Relaxed = true
				}
			}
		}(i, o)
	}
	wg.Wait()
	return res
}

func cmdVerify(args []string) int {
	t0 := time.Now()
	e, err := loadAll()
	if err != nil {
		fmt.Fprintln(os.Stderr, "load:", err)
		return 2
	}
	fmt.Printf("loaded in %.1fs\n", time.Since(t0).Seconds())
	dump := false
	var keys []string
	for _, a := range args {
		if a == "--dump" {
			dump = true
			continue
		}
		keys = append(keys, a)
	}
	rc := 0
	for _, pat := range keys {
		var matched []string
		for k, c := range e.CS.ByKey {
			if c.Kind == "func" && (!c.Trusted || c.Safe) && strings.Contains(k, pat) {
				matched = append(matched, k)
			}
		}
		sort.Strings(matched)
		if len(matched) == 0 {
			fmt.Println("no contract matches", pat)
			rc = 2
		}
		for _, k := range matched {
			fn := e.FuncByKey(k)
			if fn == nil {
				fmt.Println("contract target missing:", k)
				rc = 1
				continue
			}
			x := e.NewExec(fn, e.CS.ByKey[k])
			obls, err := x.VerifyRoot()
			if err != nil {
				fmt.Println("ERROR", k, err)
				rc = 2
				continue
			}
			fmt.Printf("== %s: %d obligations, script %d lines\n", k, len(obls), x.sc.Len())
			for n, c := range x.Notes {
				fmt.Printf("   note: %s (x%d)\n", n, c)
			}
			if dump && len(obls) > 0 {
				os.WriteFile("/tmp/govc-dump.smt2", []byte(obls[len(obls)-1].Query(0)), 0o644)
			}
			rs := solveAll(obls, 20, false, 0)
			for i, o := range obls {
				r := rs[i]
				ok := r.Status == "unsat"
				if o.ExpectSat {
					ok = r.Status == "sat"
					if o.Label == "return" {
						ok = r.Status != "unsat"
					}
				}
				mark := "ok  "
				if !ok {
					mark = "FAIL"
					rc = 1
				}
				fmt.Printf("  %s %-7s %-12s %5.2fs  %s  [%s]\n", mark, r.Status, r.Solver, r.Seconds, o.Name, o.Pos)
				if !ok && r.Relaxed {
					fmt.Println("       candidate counterexample found without the quantified loop frames")
				}
				if !ok && r.Status == "error" {
					fmt.Println("      ", firstLines(r.Raw, 3))
				}
				if dump && strings.Contains(o.Name, os.Getenv("GOVC_DUMP_NAME")) && os.Getenv("GOVC_DUMP_NAME") != "" {
					os.WriteFile(fmt.Sprintf("/tmp/govc-named-%d.smt2", i), []byte(o.Query(0)), 0o644)
					os.WriteFile(fmt.Sprintf("/tmp/govc-named-%d.sliced.smt2", i), []byte(o.SlicedQuery(0)), 0o644)
				}
				if !ok && dump {
					os.WriteFile(fmt.Sprintf("/tmp/govc-fail-%d.smt2", i), []byte(o.Query(0)), 0o644)
					os.WriteFile(fmt.Sprintf("/tmp/govc-fail-%d.sliced.smt2", i), []byte(o.SlicedQuery(0)), 0o644)
				}
			}
		}
	}
	return rc
}
