package govc

import (
	"fmt"
	"go/types"
	"strings"
)

// Leaf is one primitive component of a Go value.
type Leaf struct {
	Path string     // e.g. "Status.Phases.Abort", "Details#tag", "Values#arr"
	Sort string     // "Int", "Bool", "String"
	Typ  types.Type // Go type of the leaf (the field's type; for #tag/#val/#arr... the containing type)
	Kind LeafKind
}

type LeafKind int

const (
	LInt    LeafKind = iota // integer of some width
	LBool                   // bool
	LString                 // string
	LRef                    // pointer / map / chan / func / unsafe.Pointer : object id, 0 = nil
	LOpaque                 // float, complex: opaque Int
	LTag                    // interface dynamic type tag (0 = nil interface)
	LIVal                   // interface payload
	LSArr                   // slice backing array id
	LSOff                   // slice offset
	LSLen                   // slice length
)

// Val is a symbolic Go value: the SMT terms of its leaves, in layout order.
type Val struct {
	Typ    types.Type
	L      []string
	Ptr    *PtrInfo // interior / element pointer information (only for pointer-typed values)
	Tuple  []Val    // multi-value results
	Clo    *Closure // function values known statically
	Unsup  string   // non-empty: value is a havoc produced by an unsupported construct (reason)
	Regexp *string  // statically known pattern of a *regexp.Regexp value
}

// PtrInfo describes a pointer that does not point at a whole allocated cell.
type PtrInfo struct {
	Root types.Type // type of the allocated cell (or element type for Elem pointers)
	Elem bool       // cell is element Idx of slice backing array L[0]
	Idx  string
	Path string // leaf path prefix inside the cell
}

type Closure struct {
	Fn       interface{} // *ssa.Function
	Bindings []Val
}

const maxArrayLen = 16

type layoutCache struct {
	m map[string][]Leaf
}

func joinPath(a, b string) string {
	if a == "" {
		return b
	}
	if b == "" {
		return a
	}
	if b[0] == '#' || b[0] == '[' {
		return a + b
	}
	return a + "." + b
}

func (e *Engine) layout(t types.Type) []Leaf {
	key := e.typeKey(t)
	if l, ok := e.layouts[key]; ok {
		return l
	}
	l := e.computeLayout(t, 0)
	e.layouts[key] = l
	return l
}

func (e *Engine) computeLayout(t types.Type, depth int) []Leaf {
	if depth > 40 {
		return []Leaf{{Path: "", Sort: "Int", Typ: t, Kind: LOpaque}}
	}
	switch u := t.Underlying().(type) {
	case *types.Basic:
		info := u.Info()
		switch {
		case info&types.IsBoolean != 0:
			return []Leaf{{Sort: "Bool", Typ: t, Kind: LBool}}
		case info&types.IsString != 0:
			return []Leaf{{Sort: "String", Typ: t, Kind: LString}}
		case info&types.IsInteger != 0:
			return []Leaf{{Sort: "Int", Typ: t, Kind: LInt}}
		case u.Kind() == types.UnsafePointer:
			return []Leaf{{Sort: "Int", Typ: t, Kind: LRef}}
		case u.Kind() == types.UntypedNil:
			return []Leaf{{Sort: "Int", Typ: t, Kind: LRef}}
		default:
			return []Leaf{{Sort: "Int", Typ: t, Kind: LOpaque}}
		}
	case *types.Pointer, *types.Map, *types.Chan, *types.Signature:
		return []Leaf{{Sort: "Int", Typ: t, Kind: LRef}}
	case *types.Interface:
		return []Leaf{{Path: "#tag", Sort: "Int", Typ: t, Kind: LTag}, {Path: "#val", Sort: "Int", Typ: t, Kind: LIVal}}
	case *types.Slice:
		return []Leaf{{Path: "#arr", Sort: "Int", Typ: t, Kind: LSArr}, {Path: "#off", Sort: "Int", Typ: t, Kind: LSOff}, {Path: "#len", Sort: "Int", Typ: t, Kind: LSLen}}
	case *types.Struct:
		var out []Leaf
		for i := 0; i < u.NumFields(); i++ {
			f := u.Field(i)
			for _, l := range e.computeLayout(f.Type(), depth+1) {
				l.Path = joinPath(f.Name(), l.Path)
				out = append(out, l)
			}
		}
		return out
	case *types.Array:
		if u.Len() > maxArrayLen {
			return []Leaf{{Sort: "Int", Typ: t, Kind: LOpaque}}
		}
		var out []Leaf
		el := e.computeLayout(u.Elem(), depth+1)
		for i := int64(0); i < u.Len(); i++ {
			for _, l := range el {
				l.Path = joinPath(fmt.Sprintf("[%d]", i), l.Path)
				out = append(out, l)
			}
		}
		return out
	case *types.Tuple:
		var out []Leaf
		for i := 0; i < u.Len(); i++ {
			for _, l := range e.computeLayout(u.At(i).Type(), depth+1) {
				l.Path = joinPath(fmt.Sprintf("$%d", i), l.Path)
				out = append(out, l)
			}
		}
		return out
	}
	return []Leaf{{Sort: "Int", Typ: t, Kind: LOpaque}}
}

// subLayout returns the slice of leaves of t's layout that live under path prefix p, with
// paths relative to p, together with the offset of the first one.
func (e *Engine) subLayout(t types.Type, p string) (int, []Leaf) {
	ls := e.layout(t)
	if p == "" {
		return 0, ls
	}
	start := -1
	var out []Leaf
	for i, l := range ls {
		if l.Path == p || strings.HasPrefix(l.Path, p+".") || strings.HasPrefix(l.Path, p+"#") || strings.HasPrefix(l.Path, p+"[") {
			if start < 0 {
				start = i
			}
			r := l
			r.Path = strings.TrimPrefix(strings.TrimPrefix(l.Path, p), ".")
			out = append(out, r)
		}
	}
	return start, out
}

func shortPkg(path string) string {
	parts := strings.Split(path, "/")
	if len(parts) >= 2 {
		return parts[len(parts)-2] + "/" + parts[len(parts)-1]
	}
	return path
}

func (e *Engine) typeKey(t types.Type) string {
	return types.TypeString(t, func(p *types.Package) string { return shortPkg(p.Path()) })
}

// zeroLeaf is the SMT zero value of a leaf.
func zeroLeaf(l Leaf) string {
	switch l.Sort {
	case "Bool":
		return "false"
	case "String":
		return "\"\""
	}
	return "0"
}

func (e *Engine) zeroVal(t types.Type) Val {
	ls := e.layout(t)
	v := Val{Typ: t, L: make([]string, len(ls))}
	for i, l := range ls {
		v.L[i] = zeroLeaf(l)
	}
	return v
}

// intRange returns the inclusive bounds of an integer type, as decimal strings.
func intRange(t types.Type) (lo, hi string, ok bool) {
	b, isB := t.Underlying().(*types.Basic)
	if !isB {
		return "", "", false
	}
	switch b.Kind() {
	case types.Int8:
		return "-128", "127", true
	case types.Int16:
		return "-32768", "32767", true
	case types.Int32:
		return "-2147483648", "2147483647", true
	case types.Int, types.Int64:
		return "-9223372036854775808", "9223372036854775807", true
	case types.Uint8:
		return "0", "255", true
	case types.Uint16:
		return "0", "65535", true
	case types.Uint32:
		return "0", "4294967295", true
	case types.Uint, types.Uint64, types.Uintptr:
		return "0", "18446744073709551615", true
	}
	return "", "", false
}

func isUnsigned(t types.Type) bool {
	b, ok := t.Underlying().(*types.Basic)
	return ok && b.Info()&types.IsUnsigned != 0
}
