package govc

import (
	"fmt"
	"go/constant"
	"go/token"
	"go/types"
	"strings"

	"golang.org/x/tools/go/ssa"
)

// value returns the symbolic value of an SSA value in the current frame.
func (f *frame) value(v ssa.Value, st *State, reach string) Val {
	x := f.x
	if val, ok := f.vals[v]; ok {
		return val
	}
	switch v := v.(type) {
	case *ssa.Const:
		return x.constVal(v)
	case *ssa.Global:
		return Val{Typ: v.Type(), L: []string{IntLit(int64(x.eng.globID(v)))}}
	case *ssa.Function:
		return Val{Typ: v.Type(), L: []string{IntLit(int64(maxGlobals/2 + x.eng.fnID(v)))}, Clo: &Closure{Fn: v}}
	case *ssa.Builtin:
		return Val{Typ: v.Type(), L: []string{"0"}}
	}
	x.note("unsupported: value %T used before definition (%s)", v, v.Name())
	return x.freshVal(v.Type(), "undef", st, reach)
}

func (x *Exec) constVal(c *ssa.Const) Val {
	t := c.Type()
	if c.Value == nil {
		return x.eng.zeroVal(t)
	}
	switch c.Value.Kind() {
	case constant.Bool:
		if constant.BoolVal(c.Value) {
			return Val{Typ: t, L: []string{"true"}}
		}
		return Val{Typ: t, L: []string{"false"}}
	case constant.String:
		return Val{Typ: t, L: []string{StrLit(constant.StringVal(c.Value))}}
	case constant.Int:
		if b, ok := t.Underlying().(*types.Basic); ok && b.Info()&types.IsInteger != 0 {
			return Val{Typ: t, L: []string{BigLit(c.Value.ExactString())}}
		}
	}
	// floats, complex: opaque but deterministic per literal
	return Val{Typ: t, L: []string{x.sc.Declare("flt!"+c.Value.ExactString(), "Int")}}
}

func (f *frame) set(v ssa.Value, val Val) { f.vals[v] = val }

func (f *frame) execInstr(in ssa.Instruction, st *State, reach string) error {
	x := f.x
	switch in := in.(type) {
	case *ssa.Alloc:
		elemT := in.Type().Underlying().(*types.Pointer).Elem()
		obj := x.sc.DefineAlways("new", "Int", x.alloc(st))
		p := Val{Typ: in.Type(), L: []string{obj}}
		x.store(st, p, x.eng.zeroVal(elemT), reach, token.NoPos)
		f.set(in, p)
	case *ssa.FieldAddr:
		p := f.value(in.X, st, reach)
		c, elemT, ok := x.cellOf(p)
		if !ok {
			f.set(in, x.unsup("FieldAddr on non-pointer", in.Type(), st, reach))
			return nil
		}
		x.safeNonNil(c.obj, reach, in.Pos(), "nil-deref")
		stt, ok := elemT.Underlying().(*types.Struct)
		if !ok {
			f.set(in, x.unsup("FieldAddr on non-struct", in.Type(), st, reach))
			return nil
		}
		fld := stt.Field(in.Field).Name()
		f.set(in, Val{Typ: in.Type(), L: []string{c.obj}, Ptr: &PtrInfo{Root: c.root, Elem: c.elem, Idx: c.idx, Path: joinPath(c.prefix, fld)}})
	case *ssa.IndexAddr:
		xv := f.value(in.X, st, reach)
		iv := f.value(in.Index, st, reach)
		switch xt := in.X.Type().Underlying().(type) {
		case *types.Pointer: // pointer to array
			c, elemT, ok := x.cellOf(xv)
			at, isArr := elemT.Underlying().(*types.Array)
			if !ok || !isArr {
				f.set(in, x.unsup("IndexAddr on odd pointer", in.Type(), st, reach))
				return nil
			}
			if !isLiteral(iv.L[0]) || at.Len() > maxArrayLen {
				x.safeCond(And("(<= 0 "+iv.L[0]+")", fmt.Sprintf("(< %s %d)", iv.L[0], at.Len())), reach, in.Pos(), "index-bounds")
				// the element's address is never nil once the index is in range; what it holds is unknown
				uv := x.unsup("dynamic index into array", in.Type(), st, reach)
				if len(uv.L) == 1 {
					x.sc.Assume(reach, Not(Eq(uv.L[0], "0")))
				}
				f.set(in, uv)
				return nil
			}
			f.set(in, Val{Typ: in.Type(), L: []string{c.obj}, Ptr: &PtrInfo{Root: c.root, Elem: c.elem, Idx: c.idx, Path: joinPath(c.prefix, "["+iv.L[0]+"]")}})
		case *types.Slice:
			x.safeCond(And("(<= 0 "+iv.L[0]+")", "(< "+iv.L[0]+" "+xv.L[2]+")"), reach, in.Pos(), "index-bounds")
			idx := x.sc.Define("idx", "Int", add(xv.L[1], iv.L[0]))
			f.set(in, Val{Typ: in.Type(), L: []string{xv.L[0]}, Ptr: &PtrInfo{Root: xt.Elem(), Elem: true, Idx: idx}})
		default:
			f.set(in, x.unsup("IndexAddr", in.Type(), st, reach))
		}
	case *ssa.Field:
		sv := f.value(in.X, st, reach)
		stt := in.X.Type().Underlying().(*types.Struct)
		off, ls := x.eng.subLayout(in.X.Type(), stt.Field(in.Field).Name())
		if off < 0 || off+len(ls) > len(sv.L) {
			if len(x.eng.layout(in.Type())) == 0 {
				f.set(in, Val{Typ: in.Type()})
				return nil
			}
			f.set(in, x.unsup("Field extraction", in.Type(), st, reach))
			return nil
		}
		f.set(in, Val{Typ: in.Type(), L: append([]string(nil), sv.L[off:off+len(ls)]...)})
	case *ssa.Index:
		xv := f.value(in.X, st, reach)
		iv := f.value(in.Index, st, reach)
		if _, isStr := in.X.Type().Underlying().(*types.Basic); isStr {
			x.safeCond(And("(<= 0 "+iv.L[0]+")", "(< "+iv.L[0]+" (str.len "+xv.L[0]+"))"), reach, in.Pos(), "index-bounds")
			f.set(in, Val{Typ: in.Type(), L: []string{x.sc.Define("byte", "Int", "(str.to_code (str.at "+xv.L[0]+" "+iv.L[0]+"))")}})
			return nil
		}
		if isLiteral(iv.L[0]) {
			off, ls := x.eng.subLayout(in.X.Type(), "["+iv.L[0]+"]")
			if off >= 0 {
				f.set(in, Val{Typ: in.Type(), L: append([]string(nil), xv.L[off:off+len(ls)]...)})
				return nil
			}
		}
		f.set(in, x.unsup("Index on array value", in.Type(), st, reach))
	case *ssa.UnOp:
		return f.execUnOp(in, st, reach)
	case *ssa.Store:
		p := f.value(in.Addr, st, reach)
		v := f.value(in.Val, st, reach)
		if len(v.L) == 0 && len(v.Tuple) == 0 {
			v = x.eng.zeroVal(in.Val.Type())
		}
		if v.Ptr != nil {
			x.note("unsupported: interior pointer stored to memory at %s", x.pos(in.Pos()))
			v = x.unsup("interior pointer escapes", in.Val.Type(), st, reach)
		}
		x.store(st, p, v, reach, in.Pos())
	case *ssa.BinOp:
		a := f.value(in.X, st, reach)
		b := f.value(in.Y, st, reach)
		f.set(in, x.binop(in.Op, a, b, in.X.Type(), in.Y.Type(), in.Type(), st, reach, in.Pos()))
	case *ssa.Convert:
		f.set(in, x.convert(f.value(in.X, st, reach), in.X.Type(), in.Type(), st, reach))
	case *ssa.ChangeType:
		v := f.value(in.X, st, reach)
		v.Typ = in.Type()
		f.set(in, v)
	case *ssa.MakeInterface:
		f.set(in, x.makeInterface(f.value(in.X, st, reach), in.X.Type(), in.Type(), st, reach))
	case *ssa.ChangeInterface:
		v := f.value(in.X, st, reach)
		v.Typ = in.Type()
		f.set(in, v)
	case *ssa.TypeAssert:
		f.set(in, x.typeAssert(in, f.value(in.X, st, reach), st, reach))
	case *ssa.Extract:
		t := f.value(in.Tuple, st, reach)
		if in.Index < len(t.Tuple) {
			f.set(in, t.Tuple[in.Index])
		} else {
			f.set(in, x.unsup("Extract from non-tuple", in.Type(), st, reach))
		}
	case *ssa.Call:
		v, err := f.call(in, in.Common(), st, reach)
		if err != nil {
			return err
		}
		f.set(in, v)
	case *ssa.Defer:
		f.defers = append(f.defers, deferRec{reach: reach, call: in})
		// evaluate arguments now (Go semantics)
		d := &f.defers[len(f.defers)-1]
		for _, a := range in.Call.Args {
			d.args = append(d.args, f.value(a, st, reach))
		}
		d.fnVal = f.value(in.Call.Value, st, reach)
	case *ssa.RunDefers:
		for i := len(f.defers) - 1; i >= 0; i-- {
			d := f.defers[i]
			if !x.isEffectFree(&d.call.Call) {
				x.note("defer of non-effect-free call %s: heap havocked at function exit", d.call.Call.String())
				x.havocAll(st)
			}
		}
	case *ssa.Go:
		// a spawned function under contract: its precondition is an obligation here, its frame is havocked
		if callee := in.Call.StaticCallee(); callee != nil && !in.Call.IsInvoke() {
			if ct, ok := x.eng.CS.ByKey[callee.String()]; ok {
				var args []Val
				for _, a := range in.Call.Args {
					args = append(args, f.value(a, st, reach))
				}
				extra := map[string]Val{}
				if mc, ok := in.Call.Value.(*ssa.MakeClosure); ok {
					cv := f.value(mc, st, reach)
					if cv.Clo != nil {
						for i, fv := range callee.FreeVars {
							if i < len(cv.Clo.Bindings) {
								if _, isPtr := fv.Type().Underlying().(*types.Pointer); isPtr {
									extra[fv.Name()] = x.load(st, cv.Clo.Bindings[i], reach, in.Pos())
								}
							}
						}
					}
				}
				x.spawning, x.extraVars = true, extra
				sig := in.Call.Signature()
				if _, err := x.applyContract(ct, callee.String(), callee, sig, false, args, sig.Results(), st, reach, in.Pos()); err != nil {
					return err
				}
				x.note("go statement at %s: spawned function under contract (precondition checked, frame havocked)", x.pos(in.Pos()))
				break
			}
		}
		// no interleaving semantics: the spawned function may write anything it can reach
		x.note("go statement at %s: heap havocked", x.pos(in.Pos()))
		if !x.isEffectFree(&in.Call) {
			// A variable captured by the spawned closure lives in a heap cell that only this function and
			// the closure can reach. If the closure (and the closures nested in it) only ever LOADS from it,
			// the cell keeps its value across the spawn; everything else is havocked.
			type kept struct{ p, v Val }
			var keep []kept
			if mc, ok := in.Call.Value.(*ssa.MakeClosure); ok {
				if cfn, ok := mc.Fn.(*ssa.Function); ok {
					for i, b := range mc.Bindings {
						if _, isAlloc := b.(*ssa.Alloc); !isAlloc || i >= len(cfn.FreeVars) {
							continue
						}
						if freeVarReadOnly(cfn.FreeVars[i]) {
							pv := f.value(b, st, reach)
							keep = append(keep, kept{pv, x.load(st, pv, reach, in.Pos())})
						}
					}
				}
			}
			x.havocAll(st)
			for _, k := range keep {
				x.store(st, k.p, k.v, reach, in.Pos())
			}
		}
	case *ssa.MakeMap:
		mt := in.Type().Underlying().(*types.Map)
		ks, ok := keySort(mt.Key())
		obj := x.sc.DefineAlways("newmap", "Int", x.alloc(st))
		if ok {
			name := x.mdName(mt)
			sort := "(Array Int (Array " + ks + " Bool))"
			a := st.Get(name, sort)
			st.Set(name, sort, Store(a, obj, "((as const (Array "+ks+" Bool)) false)"))
			x.markWrittenAt(name, obj)
		}
		f.set(in, Val{Typ: in.Type(), L: []string{obj}})
	case *ssa.MapUpdate:
		m := f.value(in.Map, st, reach)
		k := f.value(in.Key, st, reach)
		v := f.value(in.Value, st, reach)
		x.mapUpdate(st, m, k, v, in.Map.Type(), reach, in.Pos())
	case *ssa.Lookup:
		f.set(in, x.lookup(in, f.value(in.X, st, reach), f.value(in.Index, st, reach), st, reach))
	case *ssa.MakeSlice:
		stt := in.Type().Underlying().(*types.Slice)
		n := f.value(in.Len, st, reach)
		x.safeCond("(<= 0 "+n.L[0]+")", reach, in.Pos(), "makeslice-len")
		obj := x.sc.DefineAlways("newarr", "Int", x.alloc(st))
		for _, l := range x.eng.layout(stt.Elem()) {
			name := x.eName(stt.Elem(), l.Path)
			sort := "(Array Int (Array Int " + l.Sort + "))"
			a := st.Get(name, sort)
			st.Set(name, sort, Store(a, obj, "((as const (Array Int "+l.Sort+")) "+zeroLeaf(l)+")"))
			x.markWrittenAt(name, obj)
		}
		f.set(in, Val{Typ: in.Type(), L: []string{obj, "0", n.L[0]}})
	case *ssa.Slice:
		f.set(in, x.sliceOp(in, f.value(in.X, st, reach), f, st, reach))
	case *ssa.MakeClosure:
		fn := in.Fn.(*ssa.Function)
		var bs []Val
		for _, b := range in.Bindings {
			bs = append(bs, f.value(b, st, reach))
		}
		f.set(in, Val{Typ: in.Type(), L: []string{IntLit(int64(maxGlobals/2 + x.eng.fnID(fn)))}, Clo: &Closure{Fn: fn, Bindings: bs}})
		// a closure under contract that is handed to other code (a callback): what its precondition says about
		// the captured variables is an obligation where the closure is created. (A closure that is spawned is
		// checked at its go statement, with its arguments.)
		if ct, ok := x.eng.CS.ByKey[fn.String()]; ok && !onlySpawned(in) {
			env := &Env{x: x, vars: map[string]Val{}, st: st, old: nil, reach: reach, imports: ct.Imports, pkgPath: ct.PkgPath}
			for i, fv := range fn.FreeVars {
				if i < len(bs) {
					if _, isPtr := fv.Type().Underlying().(*types.Pointer); isPtr {
						env.vars[fv.Name()] = x.load(st, bs[i], reach, in.Pos())
					}
				}
			}
			for _, c := range ct.Requires {
				t, err := env.evalBool(c.E)
				if err != nil {
					continue // the clause speaks about a parameter: it is the caller's business
				}
				x.addObl(&Obligation{Kind: "pre", Label: c.Label, Props: c.Props, Pos: x.pos(in.Pos()), Reach: reach, Goal: t, ClauseSrc: c.Src,
					Name:   fmt.Sprintf("%s#pre.%s.%s@L%d", shortFn(x.root), shortName(ct.Display), c.Label, x.line(in.Pos())),
					Probes: append([]Probe(nil), x.entryProbes...)})
			}
		}
	case *ssa.Range:
		f.set(in, x.rangeInit(in, f, f.value(in.X, st, reach), st, reach))
	case *ssa.Next:
		f.set(in, x.rangeNext(in, f, st, reach))
	case *ssa.Send:
		x.note("channel send ignored at %s", x.pos(in.Pos()))
	case *ssa.Select:
		x.note("select at %s: results havocked", x.pos(in.Pos()))
		sv := x.freshVal(in.Type(), "select", st, reach)
		// the index result names one of the cases (a non-blocking select may also answer -1, the default)
		idx := ""
		if len(sv.Tuple) > 0 && len(sv.Tuple[0].L) > 0 {
			idx = sv.Tuple[0].L[0]
		} else if len(sv.L) > 0 {
			idx = sv.L[0]
		}
		for _, tv := range sv.Tuple {
			x.assumeErrorsWellFormed(tv, reach)
		}
		if idx != "" {
			lo := "0"
			if !in.Blocking {
				lo = "(- 1)"
			}
			x.sc.Assume(reach, And("(<= "+lo+" "+idx+")", "(< "+idx+" "+fmt.Sprintf("%d", len(in.States))+")"))
		}
		f.set(in, sv)
	case *ssa.MakeChan:
		obj := x.sc.DefineAlways("newchan", "Int", x.alloc(st))
		f.set(in, Val{Typ: in.Type(), L: []string{obj}})
	case *ssa.SliceToArrayPointer, *ssa.MultiConvert:
		f.set(in.(ssa.Value), x.unsup(fmt.Sprintf("%T", in), in.(ssa.Value).Type(), st, reach))
	default:
		if v, ok := in.(ssa.Value); ok {
			f.set(v, x.unsup(fmt.Sprintf("instruction %T", in), v.Type(), st, reach))
		} else {
			x.note("unsupported: instruction %T (heap havocked)", in)
			x.havocAll(st)
		}
	}
	return nil
}

func add(a, b string) string {
	if a == "0" {
		return b
	}
	if b == "0" {
		return a
	}
	return "(+ " + a + " " + b + ")"
}

func (f *frame) execUnOp(in *ssa.UnOp, st *State, reach string) error {
	x := f.x
	v := f.value(in.X, st, reach)
	switch in.Op {
	case token.MUL: // load
		if al, ok := in.X.(*ssa.Alloc); ok {
			if src := immutableCellValue(al); src != nil {
				// the cell of a captured variable that is written exactly once, at entry, from a parameter and only
				// ever read afterwards (also by the closures that capture it): its value is the parameter
				f.set(in, f.value(src, st, reach))
				return nil
			}
		}
		lv := x.load(st, v, reach, in.Pos())
		if g, ok := in.X.(*ssa.Global); ok {
			// a package-level *regexp.Regexp assigned once, in init, from a constant pattern
			if pat, ok := x.eng.regexpGlobals[g]; ok && len(lv.L) == 1 {
				p := pat
				lv.Regexp = &p
				x.sc.Assume(reach, Not(Eq(lv.L[0], "0")))
				x.UsedTrust["package variable "+g.String()+" holds regexp.MustCompile of its constant pattern (assigned once, in init)"] = true
			}
			if ctor, ok := x.eng.nonNilGlobals[g]; ok && len(lv.L) >= 1 {
				x.sc.Assume(reach, Not(Eq(lv.L[0], "0")))
				x.UsedTrust["package variable "+g.String()+" is non-nil: assigned once, in init, from "+ctor+" (assumed never to return nil)"] = true
			}
		}
		f.set(in, lv)
	case token.NOT:
		f.set(in, Val{Typ: in.Type(), L: []string{Not(v.L[0])}})
	case token.SUB:
		if x.eng.layout(in.Type())[0].Kind == LInt {
			f.set(in, Val{Typ: in.Type(), L: []string{"(- " + v.L[0] + ")"}})
		} else {
			f.set(in, x.unsup("float negation", in.Type(), st, reach))
		}
	case token.ARROW:
		x.note("channel receive at %s: value havocked", x.pos(in.Pos()))
		rv := x.freshVal(in.Type(), "recv", st, reach)
		x.assumeErrorsWellFormed(rv, reach)
		f.set(in, rv)
	case token.XOR:
		f.set(in, x.unsup("bitwise complement", in.Type(), st, reach))
	default:
		f.set(in, x.unsup("unop "+in.Op.String(), in.Type(), st, reach))
	}
	return nil
}

func isStringT(t types.Type) bool {
	b, ok := t.Underlying().(*types.Basic)
	return ok && b.Info()&types.IsString != 0
}
func isIntT(t types.Type) bool {
	b, ok := t.Underlying().(*types.Basic)
	return ok && b.Info()&types.IsInteger != 0
}
func isBoolT(t types.Type) bool {
	b, ok := t.Underlying().(*types.Basic)
	return ok && b.Info()&types.IsBoolean != 0
}
func isIface(t types.Type) bool { _, ok := t.Underlying().(*types.Interface); return ok }
func isSlice(t types.Type) bool { _, ok := t.Underlying().(*types.Slice); return ok }

func (x *Exec) eqVals(a, b Val, ta, tb types.Type) string {
	// comparison with nil constant
	if isIface(ta) && isIface(tb) {
		if isNilConst(b) {
			return Eq(a.L[0], "0")
		}
		if isNilConst(a) {
			return Eq(b.L[0], "0")
		}
	}
	if isSlice(ta) || isSlice(tb) {
		if len(a.L) == 3 && (len(b.L) == 0 || isNilConst(b)) {
			return Eq(a.L[0], "0")
		}
		if len(b.L) == 3 && (len(a.L) == 0 || isNilConst(a)) {
			return Eq(b.L[0], "0")
		}
	}
	if len(a.L) != len(b.L) {
		if len(a.L) == 0 && b.Typ != nil {
			a = x.eng.zeroVal(b.Typ)
		} else if len(b.L) == 0 && a.Typ != nil {
			b = x.eng.zeroVal(a.Typ)
		}
	}
	if len(a.L) != len(b.L) {
		return x.sc.Fresh("cmp", "Bool")
	}
	var cs []string
	for i := range a.L {
		cs = append(cs, Eq(a.L[i], b.L[i]))
	}
	// element pointers compare index too
	if a.Ptr != nil && b.Ptr != nil && a.Ptr.Elem && b.Ptr.Elem {
		cs = append(cs, Eq(a.Ptr.Idx, b.Ptr.Idx))
	}
	return And(cs...)
}

func isNilConst(v Val) bool {
	for _, l := range v.L {
		if l != "0" {
			return false
		}
	}
	return true
}

func pow2(n int64) string {
	r := int64(1)
	if n >= 62 {
		// big power: build as product
		s := "1"
		for i := int64(0); i < n; i++ {
			s = "(* 2 " + s + ")"
		}
		return s
	}
	for i := int64(0); i < n; i++ {
		r *= 2
	}
	return fmt.Sprintf("%d", r)
}

func (x *Exec) binop(op token.Token, a, b Val, ta, tb, tr types.Type, st *State, reach string, pos token.Pos) Val {
	out := func(t string) Val { return Val{Typ: tr, L: []string{t}} }
	switch op {
	case token.EQL:
		return out(x.eqVals(a, b, ta, tb))
	case token.NEQ:
		return out(Not(x.eqVals(a, b, ta, tb)))
	}
	if len(a.L) != 1 || len(b.L) != 1 {
		return x.unsup("binop on composite", tr, st, reach)
	}
	l, r := a.L[0], b.L[0]
	if isStringT(ta) {
		switch op {
		case token.ADD:
			return out("(str.++ " + l + " " + r + ")")
		case token.LSS:
			return out("(str.< " + l + " " + r + ")")
		case token.LEQ:
			return out("(str.<= " + l + " " + r + ")")
		case token.GTR:
			return out("(str.< " + r + " " + l + ")")
		case token.GEQ:
			return out("(str.<= " + r + " " + l + ")")
		}
	}
	if isIntT(ta) {
		switch op {
		case token.ADD:
			return out("(+ " + l + " " + r + ")")
		case token.SUB:
			return out("(- " + l + " " + r + ")")
		case token.MUL:
			return out("(* " + l + " " + r + ")")
		case token.QUO:
			x.safeCond(Not(Eq(r, "0")), reach, pos, "div-by-zero")
			return out(tdiv(l, r))
		case token.REM:
			x.safeCond(Not(Eq(r, "0")), reach, pos, "div-by-zero")
			return out("(- " + l + " (* " + r + " " + tdiv(l, r) + "))")
		case token.LSS:
			return out("(< " + l + " " + r + ")")
		case token.LEQ:
			return out("(<= " + l + " " + r + ")")
		case token.GTR:
			return out("(> " + l + " " + r + ")")
		case token.GEQ:
			return out("(>= " + l + " " + r + ")")
		case token.SHL:
			if isLiteral(r) && !strings.HasPrefix(r, "(") {
				var n int64
				fmt.Sscanf(r, "%d", &n)
				if n < 64 {
					return out("(* " + l + " " + pow2(n) + ")")
				}
			}
		case token.SHR:
			if isLiteral(r) && !strings.HasPrefix(r, "(") {
				var n int64
				fmt.Sscanf(r, "%d", &n)
				if n < 64 {
					return out("(div " + l + " " + pow2(n) + ")")
				}
			}
		case token.AND:
			// x & (2^k-1) == x mod 2^k for non-negative x
			if isLiteral(r) && !strings.HasPrefix(r, "(") {
				var n int64
				fmt.Sscanf(r, "%d", &n)
				if n > 0 && (n&(n+1)) == 0 {
					return out("(mod " + l + " " + fmt.Sprintf("%d", n+1) + ")")
				}
			}
		}
		return x.unsup("integer operator "+op.String(), tr, st, reach)
	}
	if isBoolT(ta) {
		switch op {
		case token.AND, token.LAND:
			return out(And(l, r))
		case token.OR, token.LOR:
			return out(Or(l, r))
		}
	}
	// floats etc
	switch op {
	case token.LSS, token.LEQ, token.GTR, token.GEQ:
		return Val{Typ: tr, L: []string{x.sc.Fresh("fcmp", "Bool")}, Unsup: "float comparison"}
	}
	return x.unsup("operator "+op.String()+" on "+x.eng.typeKey(ta), tr, st, reach)
}

// tdiv is Go's truncated integer division.
func tdiv(a, b string) string {
	return "(ite (>= " + a + " 0) (ite (> " + b + " 0) (div " + a + " " + b + ") (- (div " + a + " (- " + b + ")))) (ite (> " + b + " 0) (- (div (- " + a + ") " + b + ")) (div (- " + a + ") (- " + b + "))))"
}

func (x *Exec) convert(v Val, from, to types.Type, st *State, reach string) Val {
	switch {
	case isIntT(from) && isIntT(to):
		// identity on mathematical integers; narrowing conversions wrap
		lf, hf, ok1 := intRange(from)
		lt, ht, ok2 := intRange(to)
		if ok1 && ok2 && (lf != lt || hf != ht) && !rangeWithin(lf, hf, lt, ht) {
			if isUnsigned(to) {
				// modulo 2^n
				return Val{Typ: to, L: []string{x.sc.Define("conv", "Int", "(mod "+v.L[0]+" (+ "+BigLit(ht)+" 1))")}}
			}
			// signed narrowing: result unconstrained within range unless value fits
			r := x.freshVal(to, "conv", st, reach)
			fits := And("(<= "+BigLit(lt)+" "+v.L[0]+")", "(<= "+v.L[0]+" "+BigLit(ht)+")")
			x.sc.Assume(reach, Implies(fits, Eq(r.L[0], v.L[0])))
			return r
		}
		return Val{Typ: to, L: []string{v.L[0]}}
	case isStringT(from) && isStringT(to):
		return Val{Typ: to, L: v.L}
	case isStringT(from) && isSlice(to):
		// []byte(s): fresh array whose contents are tied to s by bytesOf/strOf
		obj := x.sc.DefineAlways("newarr", "Int", x.alloc(st))
		elem := to.Underlying().(*types.Slice).Elem()
		if isIntT(elem) {
			name := x.eName(elem, "")
			sort := "(Array Int (Array Int Int))"
			a := st.Get(name, sort)
			x.declBytes()
			st.Set(name, sort, Store(a, obj, "(bytesOf "+v.L[0]+")"))
			x.markWrittenAt(name, obj)
			x.sc.Assume(reach, Eq("(strOf (bytesOf "+v.L[0]+") (str.len "+v.L[0]+"))", v.L[0]))
		}
		return Val{Typ: to, L: []string{obj, "0", "(str.len " + v.L[0] + ")"}}
	case isSlice(from) && isStringT(to):
		elem := from.Underlying().(*types.Slice).Elem()
		if isIntT(elem) && v.L[1] == "0" {
			x.declBytes()
			a := st.Get(x.eName(elem, ""), "(Array Int (Array Int Int))")
			s := x.sc.Define("str", "String", "(strOf "+Select(a, v.L[0])+" "+v.L[2]+")")
			x.sc.Assume(reach, Eq("(str.len "+s+")", v.L[2]))
			return Val{Typ: to, L: []string{s}}
		}
		r := x.freshVal(to, "bytes2str", st, reach)
		x.sc.Assume(reach, Eq("(str.len "+r.L[0]+")", v.L[2]))
		return r
	case isIntT(from) && isStringT(to):
		// string(rune)
		return Val{Typ: to, L: []string{x.sc.Define("chr", "String", "(str.from_code "+v.L[0]+")")}}
	}
	if len(x.eng.layout(from)) == len(x.eng.layout(to)) && sameSorts(x.eng.layout(from), x.eng.layout(to)) && !isIntT(from) && !isIntT(to) && !isFloat(from) && !isFloat(to) {
		return Val{Typ: to, L: v.L, Ptr: v.Ptr}
	}
	return x.unsup("conversion "+x.eng.typeKey(from)+" -> "+x.eng.typeKey(to), to, st, reach)
}

func isFloat(t types.Type) bool {
	b, ok := t.Underlying().(*types.Basic)
	return ok && b.Info()&(types.IsFloat|types.IsComplex) != 0
}

func sameSorts(a, b []Leaf) bool {
	for i := range a {
		if a[i].Sort != b[i].Sort {
			return false
		}
	}
	return true
}

func rangeWithin(lf, hf, lt, ht string) bool {
	// all are decimal strings; compare via big-ish parsing with fmt
	cmp := func(a, b string) int { // a<b:-1
		na, nb := strings.HasPrefix(a, "-"), strings.HasPrefix(b, "-")
		if na != nb {
			if na {
				return -1
			}
			return 1
		}
		aa, bb := strings.TrimPrefix(a, "-"), strings.TrimPrefix(b, "-")
		c := 0
		if len(aa) != len(bb) {
			if len(aa) < len(bb) {
				c = -1
			} else {
				c = 1
			}
		} else {
			c = strings.Compare(aa, bb)
		}
		if na {
			c = -c
		}
		return c
	}
	return cmp(lf, lt) >= 0 && cmp(hf, ht) <= 0
}

func (x *Exec) declBytes() {
	if x.boxDecl {
		return
	}
	x.boxDecl = true
	x.sc.prelude = append(x.sc.prelude,
		"(declare-fun bytesOf (String) (Array Int Int))",
		"(declare-fun strOf ((Array Int Int) Int) String)")
}

func (x *Exec) declBox() {
	if x.specDone["$box"] {
		return
	}
	x.specDone["$box"] = true
	x.sc.prelude = append(x.sc.prelude,
		"(declare-fun boxS (String) Int)",
		"(declare-fun unboxS (Int) String)")
}

// makeInterface boxes a concrete value into (tag, payload).
func (x *Exec) makeInterface(v Val, from, to types.Type, st *State, reach string) Val {
	tag := IntLit(int64(x.eng.tagOf(from)))
	ls := x.eng.layout(from)
	if len(ls) == 1 && len(v.L) == 1 && v.Ptr == nil {
		switch ls[0].Sort {
		case "Int":
			return Val{Typ: to, L: []string{tag, v.L[0]}}
		case "Bool":
			return Val{Typ: to, L: []string{tag, Ite(v.L[0], "1", "0")}}
		case "String":
			x.declBox()
			b := x.sc.Define("box", "Int", "(boxS "+v.L[0]+")")
			x.sc.Assert(Eq("(unboxS "+b+")", v.L[0]))
			return Val{Typ: to, L: []string{tag, b}}
		}
	}
	if v.Ptr != nil {
		x.note("unsupported: interior pointer boxed into interface")
		return Val{Typ: to, L: []string{tag, x.sc.Fresh("boxptr", "Int")}}
	}
	if len(ls) == 0 {
		return Val{Typ: to, L: []string{tag, "0"}}
	}
	// composite: allocate a box cell of the concrete type
	obj := x.sc.DefineAlways("boxobj", "Int", x.alloc(st))
	if len(ls) == len(v.L) {
		x.store(st, Val{Typ: types.NewPointer(from), L: []string{obj}}, v, reach, token.NoPos)
	}
	return Val{Typ: to, L: []string{tag, obj}}
}

func (x *Exec) unboxTo(iv Val, t types.Type, st *State, reach string) Val {
	ls := x.eng.layout(t)
	if len(ls) == 1 {
		switch ls[0].Sort {
		case "Int":
			return Val{Typ: t, L: []string{iv.L[1]}}
		case "Bool":
			return Val{Typ: t, L: []string{Not(Eq(iv.L[1], "0"))}}
		case "String":
			x.declBox()
			return Val{Typ: t, L: []string{"(unboxS " + iv.L[1] + ")"}}
		}
	}
	if len(ls) == 0 {
		return Val{Typ: t}
	}
	return x.load(st, Val{Typ: types.NewPointer(t), L: []string{iv.L[1]}}, reach, token.NoPos)
}

func (x *Exec) typeAssert(in *ssa.TypeAssert, iv Val, st *State, reach string) Val {
	if len(iv.L) != 2 {
		return x.unsup("type assertion on non-interface value", in.Type(), st, reach)
	}
	var ok string
	var res Val
	if isIface(in.AssertedType) {
		it := in.AssertedType.Underlying().(*types.Interface)
		if it.NumMethods() == 0 {
			ok = Not(Eq(iv.L[0], "0"))
		} else {
			fn := sym("implements:" + x.eng.typeKey(in.AssertedType))
			if !x.specDone[fn] {
				x.specDone[fn] = true
				x.sc.prelude = append(x.sc.prelude, "(declare-fun "+fn+" (Int) Bool)")
				x.sc.prelude = append(x.sc.prelude, "(assert (not ("+fn+" 0)))")
			}
			// concrete types known statically implement it or not
			ok = "(" + fn + " " + iv.L[0] + ")"
		}
		res = Val{Typ: in.AssertedType, L: []string{iv.L[0], iv.L[1]}}
	} else {
		tag := IntLit(int64(x.eng.tagOf(in.AssertedType)))
		ok = Eq(iv.L[0], tag)
		res = x.unboxTo(iv, in.AssertedType, st, And(reach, ok))
	}
	okT := x.sc.Define("isT", "Bool", ok)
	if in.CommaOk {
		// value is zero when !ok
		z := x.eng.zeroVal(in.AssertedType)
		out := Val{Typ: in.AssertedType, L: make([]string, len(res.L))}
		for i := range res.L {
			out.L[i] = Ite(okT, res.L[i], z.L[i])
		}
		return Val{Typ: in.Type(), Tuple: []Val{out, {Typ: types.Typ[types.Bool], L: []string{okT}}}}
	}
	x.safeCond(okT, reach, in.Pos(), "type-assert")
	x.sc.Assume(reach, okT) // a failed assertion panics: execution continues only if it held
	return res
}

// ---------------- maps ----------------

func (x *Exec) mapUpdate(st *State, m, k, v Val, mapT types.Type, reach string, pos token.Pos) {
	mt, ok := mapT.Underlying().(*types.Map)
	if !ok {
		x.note("unsupported: MapUpdate on non-map")
		return
	}
	ks, ok := keySort(mt.Key())
	if !ok || len(k.L) != 1 {
		x.note("unsupported: map key type %s (map contents havocked)", x.eng.typeKey(mt.Key()))
		return
	}
	x.safeNonNil(m.L[0], reach, pos, "nil-map-write")
	dn := x.mdName(mt)
	dsort := "(Array Int (Array " + ks + " Bool))"
	d := st.Get(dn, dsort)
	st.Set(dn, dsort, Store(d, m.L[0], Store(Select(d, m.L[0]), k.L[0], "true")))
	x.markWrittenAt(dn, m.L[0])
	ls := x.eng.layout(mt.Elem())
	if v.Ptr != nil || len(v.L) != len(ls) {
		if len(ls) > 0 {
			x.note("unsupported: map value shape at %s", x.pos(pos))
		}
		interior := v.Ptr != nil
		v = x.freshVal(mt.Elem(), "mapval", st, reach)
		if interior && len(v.L) == 1 {
			// the address of a field or element is never nil (taking it from a nil base is a
			// separate safe.nil-deref obligation); which cell it denotes is lost
			x.sc.Assume(reach, Not(Eq(v.L[0], "0")))
		}
	}
	for i, l := range ls {
		vn := x.mvName(mt, l.Path)
		vsort := "(Array Int (Array " + ks + " " + l.Sort + "))"
		a := st.Get(vn, vsort)
		st.Set(vn, vsort, Store(a, m.L[0], Store(Select(a, m.L[0]), k.L[0], v.L[i])))
		x.markWrittenAt(vn, m.L[0])
	}
}

func (x *Exec) mapDom(st *State, mt *types.Map, m, k string) string {
	ks, _ := keySort(mt.Key())
	d := st.Get(x.mdName(mt), "(Array Int (Array "+ks+" Bool))")
	return And(Not(Eq(m, "0")), Select(Select(d, m), k))
}

func (x *Exec) mapGet(st *State, mt *types.Map, m, k string) Val {
	ks, _ := keySort(mt.Key())
	ls := x.eng.layout(mt.Elem())
	v := Val{Typ: mt.Elem(), L: make([]string, len(ls))}
	for i, l := range ls {
		a := st.Get(x.mvName(mt, l.Path), "(Array Int (Array "+ks+" "+l.Sort+"))")
		v.L[i] = Select(Select(a, m), k)
	}
	return v
}

func (x *Exec) lookup(in *ssa.Lookup, m, k Val, st *State, reach string) Val {
	if isStringT(in.X.Type()) {
		x.safeCond(And("(<= 0 "+k.L[0]+")", "(< "+k.L[0]+" (str.len "+m.L[0]+"))"), reach, in.Pos(), "index-bounds")
		return Val{Typ: in.Type(), L: []string{x.sc.Define("byte", "Int", "(str.to_code (str.at "+m.L[0]+" "+k.L[0]+"))")}}
	}
	mt := in.X.Type().Underlying().(*types.Map)
	_, ok := keySort(mt.Key())
	if !ok || len(k.L) != 1 {
		return x.unsup("map lookup with key type "+x.eng.typeKey(mt.Key()), in.Type(), st, reach)
	}
	dom := x.sc.Define("indom", "Bool", x.mapDom(st, mt, m.L[0], k.L[0]))
	raw := x.mapGet(st, mt, m.L[0], k.L[0])
	z := x.eng.zeroVal(mt.Elem())
	v := Val{Typ: mt.Elem(), L: make([]string, len(raw.L))}
	ls := x.eng.layout(mt.Elem())
	for i := range raw.L {
		v.L[i] = x.sc.Define("mv", ls[i].Sort, Ite(dom, raw.L[i], z.L[i]))
	}
	x.assumeTypeInv(v, st, reach)
	if in.CommaOk {
		return Val{Typ: in.Type(), Tuple: []Val{v, {Typ: types.Typ[types.Bool], L: []string{dom}}}}
	}
	return v
}

// ---------------- slices ----------------

func (x *Exec) sliceOp(in *ssa.Slice, xv Val, f *frame, st *State, reach string) Val {
	var lo, hi string
	if in.Low != nil {
		lo = f.value(in.Low, st, reach).L[0]
	} else {
		lo = "0"
	}
	switch xt := in.X.Type().Underlying().(type) {
	case *types.Basic: // string
		if in.High != nil {
			hi = f.value(in.High, st, reach).L[0]
		} else {
			hi = "(str.len " + xv.L[0] + ")"
		}
		x.safeCond(And("(<= 0 "+lo+")", "(<= "+lo+" "+hi+")", "(<= "+hi+" (str.len "+xv.L[0]+"))"), reach, in.Pos(), "slice-bounds")
		return Val{Typ: in.Type(), L: []string{x.sc.Define("substr", "String", "(str.substr "+xv.L[0]+" "+lo+" (- "+hi+" "+lo+"))")}}
	case *types.Slice:
		if in.High != nil {
			hi = f.value(in.High, st, reach).L[0]
		} else {
			hi = xv.L[2]
		}
		x.safeCond(And("(<= 0 "+lo+")", "(<= "+lo+" "+hi+")", "(<= "+hi+" "+xv.L[2]+")"), reach, in.Pos(), "slice-bounds")
		return Val{Typ: in.Type(), L: []string{xv.L[0], x.sc.Define("off", "Int", add(xv.L[1], lo)), x.sc.Define("len", "Int", "(- "+hi+" "+lo+")")}}
	case *types.Pointer: // *[N]T -> copy the array out into a fresh backing array
		at, ok := xt.Elem().Underlying().(*types.Array)
		if !ok || at.Len() > maxArrayLen {
			return x.unsup("slice of large array", in.Type(), st, reach)
		}
		c, _, ok2 := x.cellOf(xv)
		if !ok2 {
			return x.unsup("slice of odd array pointer", in.Type(), st, reach)
		}
		obj := x.sc.DefineAlways("newarr", "Int", x.alloc(st))
		els := x.eng.layout(at.Elem())
		for _, l := range els {
			name := x.eName(at.Elem(), l.Path)
			sort := "(Array Int (Array Int " + l.Sort + "))"
			a := st.Get(name, sort)
			row := Select(a, obj)
			for i := int64(0); i < at.Len(); i++ {
				leaf := l
				leaf.Path = joinPath(fmt.Sprintf("[%d]", i), l.Path)
				row = Store(row, fmt.Sprintf("%d", i), x.leafRead(st, c, leaf))
			}
			st.Set(name, sort, Store(a, obj, row))
			x.markWrittenAt(name, obj)
		}
		n := fmt.Sprintf("%d", at.Len())
		if in.High != nil {
			hi = f.value(in.High, st, reach).L[0]
		} else {
			hi = n
		}
		if lo == "0" && hi == n {
			return Val{Typ: in.Type(), L: []string{obj, "0", n}}
		}
		return Val{Typ: in.Type(), L: []string{obj, lo, x.sc.Define("len", "Int", "(- "+hi+" "+lo+")")}}
	}
	return x.unsup("slice op", in.Type(), st, reach)
}

func (x *Exec) sliceElem(st *State, s Val, elemT types.Type, i string) Val {
	ls := x.eng.layout(elemT)
	v := Val{Typ: elemT, L: make([]string, len(ls))}
	for k, l := range ls {
		a := st.Get(x.eName(elemT, l.Path), "(Array Int (Array Int "+l.Sort+"))")
		v.L[k] = Select(Select(a, s.L[0]), add(s.L[1], i))
	}
	return v
}

// appendOp models append with always-copy semantics.
func (x *Exec) appendOp(s, t Val, sliceT types.Type, st *State, reach string) Val {
	stt, ok := sliceT.Underlying().(*types.Slice)
	if !ok {
		return x.unsup("append to non-slice", sliceT, st, reach)
	}
	if len(s.L) != 3 {
		s = x.eng.zeroVal(sliceT)
	}
	if len(t.L) != 3 {
		if isStringT(t.Typ) {
			return x.unsup("append(bytes, string...)", sliceT, st, reach)
		}
		t = x.eng.zeroVal(sliceT)
	}
	elemT := stt.Elem()
	obj := x.sc.DefineAlways("newarr", "Int", x.alloc(st))
	newLen := x.sc.Define("len", "Int", add(s.L[2], t.L[2]))
	var n int64 = -1
	if isLiteral(t.L[2]) && !strings.HasPrefix(t.L[2], "(") {
		fmt.Sscanf(t.L[2], "%d", &n)
	}
	for _, l := range x.eng.layout(elemT) {
		name := x.eName(elemT, l.Path)
		sort := "(Array Int (Array Int " + l.Sort + "))"
		a := st.Get(name, sort)
		if s.L[1] == "0" && n >= 0 && n <= maxArrayLen {
			row := Select(a, s.L[0])
			for j := int64(0); j < n; j++ {
				row = Store(row, add(s.L[2], fmt.Sprintf("%d", j)), Select(Select(a, t.L[0]), add(t.L[1], fmt.Sprintf("%d", j))))
			}
			st.Set(name, sort, Store(a, obj, row))
		} else {
			row := x.sc.Fresh("approw", "(Array Int "+l.Sort+")")
			// two triggers: a read of the new row, or a read of the old slice's element (so that
			// a fact known about an old element carries over to the copy)
			src := Select(Select(a, s.L[0]), "(+ "+s.L[1]+" i)")
			pats := ":pattern ((select " + row + " i))"
			if !strings.ContainsAny(src, "=<>") && !strings.Contains(src, "(ite ") && !strings.Contains(src, "(and ") && !strings.Contains(src, "(or ") && !strings.Contains(src, "(not ") {
				pats += " :pattern (" + src + ")"
			}
			x.sc.Assume(reach, "(forall ((i Int)) (! (=> (and (<= 0 i) (< i "+s.L[2]+")) (= (select "+row+" i) "+src+")) "+pats+"))")
			if n >= 0 && n <= maxArrayLen {
				// ground instances of the second axiom for the appended elements
				for j := int64(0); j < n; j++ {
					js := fmt.Sprintf("%d", j)
					x.sc.Assume(reach, Eq("(select "+row+" "+add(s.L[2], js)+")", Select(Select(a, t.L[0]), add(t.L[1], js))))
				}
			}
			x.sc.Assume(reach, "(forall ((i Int)) (! (=> (and (<= "+s.L[2]+" i) (< i "+newLen+")) (= (select "+row+" i) "+Select(Select(a, t.L[0]), "(+ "+t.L[1]+" (- i "+s.L[2]+"))")+")) :pattern ((select "+row+" i))))")
			st.Set(name, sort, Store(a, obj, row))
		}
		x.markWrittenAt(name, obj)
	}
	return Val{Typ: sliceT, L: []string{obj, "0", newLen}}
}

// ---------------- range ----------------

func (x *Exec) rangeInit(in *ssa.Range, f *frame, xv Val, st *State, reach string) Val {
	f.iterSeq++
	id := fmt.Sprintf("%s%s.%s", f.path, f.fn.Name(), in.Name())
	switch t := in.X.Type().Underlying().(type) {
	case *types.Map:
		if ks, ok := keySort(t.Key()); ok {
			name := "V:" + id
			st.Set(name, "(Array "+ks+" Bool)", "((as const (Array "+ks+" Bool)) false)")
			x.markWritten(name)
		}
	case *types.Basic:
		name := "P:" + id
		st.Set(name, "Int", "0")
		x.markWritten(name)
	}
	v := Val{Typ: in.Type(), L: []string{"0"}, Tuple: []Val{xv}}
	v.Unsup = ""
	return v
}

func (x *Exec) iterID(f *frame, r *ssa.Range) string {
	return fmt.Sprintf("%s%s.%s", f.path, f.fn.Name(), r.Name())
}

func (x *Exec) rangeNext(in *ssa.Next, f *frame, st *State, reach string) Val {
	r, ok := in.Iter.(*ssa.Range)
	if !ok {
		return x.unsup("next on unknown iterator", in.Type(), st, reach)
	}
	it := f.value(r, st, reach)
	if len(it.Tuple) != 1 {
		return x.unsup("next on unknown iterator", in.Type(), st, reach)
	}
	xv := it.Tuple[0]
	tup := in.Type().(*types.Tuple)
	okT := x.sc.Fresh("more", "Bool")
	boolV := Val{Typ: types.Typ[types.Bool], L: []string{okT}}
	if in.IsString {
		name := "P:" + x.iterID(f, r)
		p := st.Get(name, "Int")
		x.sc.Assume(reach, Eq(okT, "(< "+p+" (str.len "+xv.L[0]+"))"))
		x.sc.Assume(reach, "(<= 0 "+p+")")
		kv := Val{Typ: tup.At(1).Type(), L: []string{p}}
		rv := Val{Typ: tup.At(2).Type(), L: []string{x.sc.Define("rune", "Int", "(str.to_code (str.at "+xv.L[0]+" "+p+"))")}}
		st.Set(name, "Int", Ite(okT, "(+ "+p+" 1)", p))
		x.markWritten(name)
		return Val{Typ: in.Type(), Tuple: []Val{boolV, kv, rv}}
	}
	mt, isMap := r.X.Type().Underlying().(*types.Map)
	if !isMap {
		return x.unsup("next on non-map iterator", in.Type(), st, reach)
	}
	ks, kok := keySort(mt.Key())
	if !kok {
		k := x.freshVal(mt.Key(), "rk", st, reach)
		v := x.freshVal(mt.Elem(), "rv", st, reach)
		return Val{Typ: in.Type(), Tuple: []Val{boolV, k, v}}
	}
	k := x.freshVal(mt.Key(), "rk", st, reach)
	name := "V:" + x.iterID(f, r)
	vis := st.Get(name, "(Array "+ks+" Bool)")
	dom := x.mapDom(st, mt, xv.L[0], k.L[0])
	x.sc.Assume(reach, Implies(okT, And(dom, Not(Select(vis, k.L[0])))))
	d := st.Get(x.mdName(mt), "(Array Int (Array "+ks+" Bool))")
	domArr := x.sc.Name("domarr", "(Array "+ks+" Bool)", Select(d, xv.L[0]))
	vis = x.sc.Name("vis", "(Array "+ks+" Bool)", vis)
	x.sc.Assume(reach, Implies(Not(okT), "(forall ((k "+ks+")) (! (=> "+And(Not(Eq(xv.L[0], "0")), "(select "+domArr+" k)")+" (select "+vis+" k)) :pattern ((select "+domArr+" k))))"))
	raw := x.mapGet(st, mt, xv.L[0], k.L[0])
	ls := x.eng.layout(mt.Elem())
	v := Val{Typ: mt.Elem(), L: make([]string, len(raw.L))}
	for i := range raw.L {
		v.L[i] = x.sc.Define("rv", ls[i].Sort, raw.L[i])
	}
	x.assumeTypeInv(v, st, reach)
	st.Set(name, "(Array "+ks+" Bool)", Ite(okT, Store(vis, k.L[0], "true"), vis))
	x.markWritten(name)
	return Val{Typ: in.Type(), Tuple: []Val{boolV, k, v}}
}

// freeVarReadOnly: every use of the captured variable inside the closure is a load (so the closure
// cannot change the cell, nor hand its address to anyone who could).
func freeVarReadOnly(fv *ssa.FreeVar) bool {
	refs := fv.Referrers()
	if refs == nil {
		return false
	}
	for _, r := range *refs {
		u, ok := r.(*ssa.UnOp)
		if !ok || u.Op != token.MUL {
			if _, isDbg := r.(*ssa.DebugRef); isDbg {
				continue
			}
			return false
		}
	}
	return true
}

// immutableCellValue returns the parameter a heap cell was initialised with if that is the only write
// the cell can ever see: one Store of a Parameter in the entry block, loads, and captures by closures
// that only load from it.
func immutableCellValue(al *ssa.Alloc) ssa.Value {
	refs := al.Referrers()
	if refs == nil {
		return nil
	}
	var src ssa.Value
	for _, r := range *refs {
		switch u := r.(type) {
		case *ssa.Store:
			if u.Addr != al || src != nil {
				return nil
			}
			p, isParam := u.Val.(*ssa.Parameter)
			if !isParam || u.Block() == nil || u.Block().Index != 0 {
				return nil
			}
			src = p
		case *ssa.UnOp:
			if u.Op != token.MUL {
				return nil
			}
		case *ssa.DebugRef:
		case *ssa.MakeClosure:
			cfn, ok := u.Fn.(*ssa.Function)
			if !ok {
				return nil
			}
			for i, b := range u.Bindings {
				if b == al && (i >= len(cfn.FreeVars) || !freeVarReadOnly(cfn.FreeVars[i])) {
					return nil
				}
			}
		default:
			return nil
		}
	}
	return src
}

// assumeErrorsWellFormed: an error value that arrives over a channel is assumed not to wrap a nil
// *TypedError (the senders of this repository send results of the onos-lib-go constructors, which
// allocate). Listed as an assumption wherever it is used.
func (x *Exec) assumeErrorsWellFormed(v Val, reach string) {
	if v.Typ == nil || len(v.L) != 2 || v.Typ.String() != "error" {
		return
	}
	p := x.eng.TypPkgs["github.com/onosproject/onos-lib-go/pkg/errors"]
	if p == nil {
		return
	}
	tn, ok := p.Scope().Lookup("TypedError").(*types.TypeName)
	if !ok {
		return
	}
	tag := x.eng.tagOf(types.NewPointer(tn.Type()))
	x.sc.Assume(reach, Implies(Eq(v.L[0], fmt.Sprintf("%d", tag)), Not(Eq(v.L[1], "0"))))
	x.UsedTrust["error values received from a channel do not wrap a nil *TypedError (assumed)"] = true
}

// onlySpawned reports whether the closure is used by go statements only.
func onlySpawned(mc *ssa.MakeClosure) bool {
	refs := mc.Referrers()
	if refs == nil || len(*refs) == 0 {
		return false
	}
	for _, r := range *refs {
		if g, ok := r.(*ssa.Go); !ok || g.Call.Value != mc {
			return false
		}
	}
	return true
}
