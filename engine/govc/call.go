package govc

import (
	"fmt"
	"go/token"
	"go/types"
	"strings"

	"golang.org/x/tools/go/ssa"
)

const maxInlineDepth = 8
const maxInlineInstrs = 600
const maxDepInlineInstrs = 60

var effectFreePkgs = []string{
	"github.com/onosproject/onos-lib-go/pkg/logging",
	"fmt", "strings", "strconv", "errors", "time", "context", "regexp", "regexp/syntax",
	"google.golang.org/grpc/status", "google.golang.org/grpc/codes", "google.golang.org/grpc/metadata",
	"math", "math/big", "unicode", "unicode/utf8", "github.com/google/uuid", "math/rand", "path", "path/filepath",
	"github.com/grpc-ecosystem/go-grpc-middleware/util/metautils",
	"crypto/sha1", "crypto/sha256", "crypto/md5", "encoding/hex", "encoding/base64", "hash",
	"golang.org/x/text", "os",
}

var effectFreeFuncs = map[string]bool{
	"(*sync.Mutex).Lock": true, "(*sync.Mutex).Unlock": true, "(*sync.RWMutex).Lock": true, "(*sync.RWMutex).Unlock": true,
	"(*sync.RWMutex).RLock": true, "(*sync.RWMutex).RUnlock": true,
	// a WaitGroup's methods touch only the WaitGroup (Add can panic on a negative counter: not modelled)
	"(*sync.WaitGroup).Add": true, "(*sync.WaitGroup).Done": true, "(*sync.WaitGroup).Wait": true,
	"encoding/json.Marshal": true, "reflect.DeepEqual": true, "reflect.TypeOf": true, "reflect.ValueOf": true,
	"bytes.Equal": true, "bytes.Compare": true, "sort.SearchStrings": true, "sort.StringsAreSorted": true,
	"(context.Context).Done": true, "(context.Context).Err": true, "(context.Context).Value": true, "(context.Context).Deadline": true,
	"(error).Error":                          true,
	"github.com/gogo/protobuf/proto.Marshal": true, "google.golang.org/protobuf/proto.Marshal": true,
	"github.com/golang/protobuf/proto.Marshal": true, "github.com/gogo/protobuf/proto.Clone": true,
	"github.com/golang/protobuf/proto.Clone": true, "google.golang.org/protobuf/proto.Clone": true,
}

// inlinable dependency packages (generated getters and tiny helpers)
var inlineDepPkgs = []string{
	"github.com/onosproject/onos-api/go/onos/",
	"github.com/openconfig/gnmi/proto/",
	"github.com/onosproject/onos-lib-go/pkg/controller",
	"github.com/onosproject/onos-lib-go/pkg/errors",
}

func pkgOfKey(key string) string {
	k := strings.TrimPrefix(key, "(")
	k = strings.TrimPrefix(k, "*")
	if i := strings.LastIndex(k, "/"); i >= 0 {
		rest := k[i+1:]
		if j := strings.Index(rest, "."); j >= 0 {
			return k[:i+1+j]
		}
		return k
	}
	if j := strings.Index(k, "."); j >= 0 {
		return k[:j]
	}
	return k
}

func effectFreeKey(key string) bool {
	if effectFreeFuncs[key] {
		return true
	}
	p := pkgOfKey(key)
	for _, e := range effectFreePkgs {
		if p == e || strings.HasPrefix(p, e+"/") {
			return true
		}
	}
	// generated protobuf accessors and stringers
	if i := strings.LastIndex(key, ")."); i >= 0 {
		m := key[i+2:]
		if m == "String" || m == "Error" || m == "GoString" || m == "Size" || m == "ProtoSize" || m == "Descriptor" ||
			(strings.HasPrefix(m, "Get") && len(m) > 3 && m[3] >= 'A' && m[3] <= 'Z' && isProtoPkg(p)) {
			return true
		}
	}
	return false
}

func isProtoPkg(p string) bool {
	return strings.HasPrefix(p, "github.com/onosproject/onos-api/") || strings.HasPrefix(p, "github.com/openconfig/gnmi/proto")
}

// stripTypeArgs removes the type-argument lists of instantiated generic types from a key, so that
// one contract on IndexedMap.Update serves every instantiation.
func stripTypeArgs(key string) string {
	var b strings.Builder
	depth := 0
	for i := 0; i < len(key); i++ {
		switch key[i] {
		case '[':
			depth++
			continue
		case ']':
			if depth > 0 {
				depth--
				continue
			}
		}
		if depth == 0 {
			b.WriteByte(key[i])
		}
	}
	return b.String()
}

func callKey(c *ssa.CallCommon) string {
	if c.IsInvoke() {
		k := c.Method.FullName()
		if strings.Contains(k, "[") {
			return stripTypeArgs(k)
		}
		return k
	}
	if fn := c.StaticCallee(); fn != nil {
		return fn.String()
	}
	return ""
}

func (x *Exec) isEffectFree(c *ssa.CallCommon) bool {
	key := callKey(c)
	if key == "" {
		if _, ok := c.Value.(*ssa.Builtin); ok {
			return true
		}
		// calling a function value such as a context.CancelFunc
		if named, ok := c.Value.Type().(*types.Named); ok && named.Obj().Pkg() != nil && named.Obj().Pkg().Path() == "context" {
			return true
		}
		return false
	}
	if ct, ok := x.eng.CS.ByKey[key]; ok {
		return ct.Pure
	}
	return effectFreeKey(key)
}

func (f *frame) call(instr ssa.Instruction, common *ssa.CallCommon, st *State, reach string) (Val, error) {
	x := f.x
	sig := common.Signature()
	var resT types.Type = sig.Results()
	if sig.Results().Len() == 1 {
		resT = sig.Results().At(0).Type()
	}
	var args []Val
	for _, a := range common.Args {
		args = append(args, f.value(a, st, reach))
	}
	if b, ok := common.Value.(*ssa.Builtin); ok {
		return x.builtin(b, common, args, resT, st, reach, instr.Pos()), nil
	}
	key := callKey(common)
	var callee *ssa.Function
	var bindings []Val
	if common.IsInvoke() {
		recv := f.value(common.Value, st, reach)
		x.safeCond(Not(Eq(recv.L[0], "0")), reach, instr.Pos(), "nil-interface-call")
		args = append([]Val{recv}, args...)
	} else if fn := common.StaticCallee(); fn != nil {
		callee = fn
		if mc, ok := common.Value.(*ssa.MakeClosure); ok {
			cv := f.value(mc, st, reach)
			if cv.Clo != nil {
				bindings = cv.Clo.Bindings
			}
		}
	} else {
		fv := f.value(common.Value, st, reach)
		if fv.Clo != nil {
			callee = fv.Clo.Fn.(*ssa.Function)
			bindings = fv.Clo.Bindings
			key = callee.String()
		}
	}
	if strings.HasPrefix(key, "regexp.") || strings.HasPrefix(key, "(*regexp.Regexp).") {
		if v, handled := f.regexpCall(key, common, args, resT, st, reach, instr.Pos()); handled {
			return v, nil
		}
	}
	if key != "" {
		if ct, ok := x.eng.CS.ByKey[key]; ok && !(ct.Inlined && callee != nil && x.canInline(callee, f)) {
			return x.applyContract(ct, key, callee, sig, common.IsInvoke(), args, resT, st, reach, instr.Pos())
		}
	}
	// generated enum stringers index descriptor tables of the protobuf runtime: treated as effect-free
	// results, not inlined
	enumStringer := callee != nil && strings.HasSuffix(key, ").String") && isProtoPkg(pkgOfKey(key)) && len(callee.Params) == 1 &&
		func() bool { _, isPtr := callee.Params[0].Type().(*types.Pointer); return !isPtr }()
	if callee != nil && !enumStringer && x.canInline(callee, f) {
		return x.inline(f, callee, args, bindings, resT, st, reach, instr.Pos())
	}
	effectFree := false
	if key != "" {
		effectFree = effectFreeKey(key)
	} else {
		effectFree = x.isEffectFree(common)
	}
	if !effectFree {
		what := key
		if what == "" {
			what = "dynamic call " + common.Value.Name()
		}
		x.note("call without contract havocs the heap: %s", what)
		x.havocAll(st)
	} else {
		x.UsedTrust["effect-free (assumed): "+key] = true
	}
	x.bumpAlloc(st, reach)
	if sig.Results().Len() == 0 {
		return Val{Typ: resT}, nil
	}
	return x.freshVal(resT, "ret", st, reach), nil
}

func (x *Exec) canInline(fn *ssa.Function, f *frame) bool {
	if len(fn.Blocks) == 0 || f.depth >= maxInlineDepth {
		return false
	}
	for _, fr := range x.frames {
		if fr.fn == fn {
			return false
		}
	}
	n := 0
	for _, b := range fn.Blocks {
		n += len(b.Instrs)
	}
	pkg := ""
	if fn.Pkg != nil {
		pkg = fn.Pkg.Pkg.Path()
	} else if fn.Parent() != nil && fn.Parent().Pkg != nil {
		pkg = fn.Parent().Pkg.Pkg.Path()
	} else if fn.Object() != nil && fn.Object().Pkg() != nil {
		pkg = fn.Object().Pkg().Path()
	}
	if strings.HasPrefix(pkg, ModPath) {
		rootPkg := ""
		if x.root.Pkg != nil {
			rootPkg = x.root.Pkg.Pkg.Path()
		}
		if pkg == rootPkg {
			return n <= maxInlineInstrs
		}
		return n <= maxDepInlineInstrs
	}
	if pkg == "github.com/onosproject/onos-lib-go/pkg/errors" {
		return n <= maxInlineInstrs // small, self-contained: analysed from its pinned source rather than assumed
	}
	for _, p := range inlineDepPkgs {
		if strings.HasPrefix(pkg, p) {
			return n <= maxDepInlineInstrs
		}
	}
	return false
}

func (x *Exec) inline(f *frame, fn *ssa.Function, args, bindings []Val, resT types.Type, st *State, reach string, pos token.Pos) (Val, error) {
	x.Inlined[fn.String()] = true
	if len(args) != len(fn.Params) {
		x.note("unsupported: inline arity mismatch for %s", fn)
		x.havocAll(st)
		return x.freshVal(resT, "ret", st, reach), nil
	}
	nf := x.newFrame(fn, args, bindings, f.depth+1, fmt.Sprintf("%s%s@%d/", f.path, f.fn.Name(), x.line(pos)))
	nf.entry = f.entry
	sub := st.clone()
	if err := nf.run(sub, reach); err != nil {
		return Val{}, err
	}
	if len(nf.rets) == 0 {
		// callee never returns (panics or loops forever)
		x.sc.Assume(reach, "false")
		return x.freshVal(resT, "ret", st, reach), nil
	}
	// merge return sites
	var res Val
	var mst *State
	for i := len(nf.rets) - 1; i >= 0; i-- {
		r := nf.rets[i]
		var rv Val
		switch len(r.results) {
		case 0:
			rv = Val{Typ: resT}
		case 1:
			rv = r.results[0]
		default:
			rv = Val{Typ: resT, Tuple: r.results}
		}
		if mst == nil {
			res, mst = rv, r.st
			continue
		}
		res = x.mergeVals(r.reach, rv, res)
		mst = x.mergeStates(r.reach, r.st, mst)
	}
	var rs []string
	for _, r := range nf.rets {
		rs = append(rs, r.reach)
	}
	// the caller continues only if the callee returned
	x.sc.Assume(reach, Or(rs...))
	// copy merged state back into st (st is the caller's mutable state)
	*st = *mst.clone()
	return res, nil
}

// applyContract checks the preconditions of ct at a call site and assumes its postconditions.
func (x *Exec) applyContract(ct *Contract, key string, callee *ssa.Function, sig *types.Signature, invoke bool, args []Val, resT types.Type, st *State, reach string, pos token.Pos) (Val, error) {
	if ct.Trusted {
		x.UsedTrust["assumed contract: "+ct.Display] = true
	}
	env := &Env{x: x, vars: map[string]Val{}, st: st, old: nil, reach: reach, imports: ct.Imports, pkgPath: ct.PkgPath}
	names := ct.ParamNames
	if len(names) == 0 {
		if callee != nil {
			names = paramNames(sig, callee)
		} else {
			names = append([]string{"this"}, paramNamesNoRecv(sig)...)
		}
	} else if invoke && len(names) == len(args)-1 {
		names = append([]string{"this"}, names...)
	}
	for i, a := range args {
		if i < len(names) && names[i] != "" && names[i] != "_" {
			env.vars[names[i]] = a
		}
	}
	for n, v := range x.extraVars {
		if _, taken := env.vars[n]; !taken {
			env.vars[n] = v
		}
	}
	spawning := x.spawning
	x.spawning, x.extraVars = false, nil
	for _, c := range ct.Requires {
		t, err := env.evalBool(c.E)
		if err != nil {
			return Val{}, fmt.Errorf("%s:%d: %v", c.File, c.Line, err)
		}
		kind := "pre"
		if c.Guard {
			kind = "guard"
		}
		x.addObl(&Obligation{Kind: kind, Label: c.Label, Props: c.Props, Pos: x.pos(pos), Reach: reach, Goal: t, ClauseSrc: c.Src,
			Name:   fmt.Sprintf("%s#%s.%s.%s@L%d", shortFn(x.root), kind, shortName(ct.Display), c.Label, x.line(pos)),
			Probes: append([]Probe(nil), x.entryProbes...)})
		// after the call the precondition is known to have held
		x.sc.Assume(reach, t)
	}
	pre := st.clone()
	pre.frozen = true
	// the callee may allocate: references it stores into modified locations or returns may be new objects
	allocPre, _ := x.bumpAlloc(st, reach)
	// frame
	switch {
	case ct.Pure:
	case ct.ModAll || !ct.HasModifies:
		if !ct.HasModifies {
			x.note("contract %s has no modifies clause: heap havocked", ct.Display)
		}
		x.havocAll(st)
	default:
		for i, m := range ct.Modifies {
			if err := x.havocPlace(env, m, st, reach); err != nil {
				return Val{}, fmt.Errorf("%s:%d: modifies %s: %v", ct.File, ct.Line, ct.ModSrc[i], err)
			}
		}
	}
	if spawning {
		// a `go` statement: the spawned function has not finished, nothing of its postcondition is known
		return Val{Typ: resT}, nil
	}
	var res Val
	if sig.Results().Len() == 0 {
		res = Val{Typ: resT}
	} else {
		res = x.freshVal(resT, "ret", st, reach)
	}
	post := &Env{x: x, vars: env.vars, st: st, old: pre, reach: reach, imports: ct.Imports, pkgPath: ct.PkgPath, allocPre: allocPre}
	// `fresh r` : result r is newly allocated; a fresh slice starts at offset 0 of its own backing array
	if len(ct.Fresh) > 0 {
		rs := sig.Results()
		mark := func(v *Val, i int) {
			name := ""
			if i < len(ct.ResultNames) {
				name = ct.ResultNames[i]
			} else if i < rs.Len() {
				name = rs.At(i).Name()
			}
			for _, f := range ct.Fresh {
				if f == name && len(v.L) >= 1 {
					if isSlice(v.Typ) && len(v.L) == 3 {
						v.L[1] = "0"
						x.sc.Assume(reach, Or(Eq(v.L[0], "0"), "(>= "+v.L[0]+" "+allocPre+")"))
					} else if len(v.L) == 1 {
						x.sc.Assume(reach, Or(Eq(v.L[0], "0"), "(>= "+v.L[0]+" "+allocPre+")"))
					}
				}
			}
		}
		if len(res.Tuple) > 0 {
			for i := range res.Tuple {
				mark(&res.Tuple[i], i)
			}
		} else if sig.Results().Len() == 1 {
			mark(&res, 0)
		}
	}
	var results []Val
	if len(res.Tuple) > 0 {
		results = res.Tuple
	} else if sig.Results().Len() == 1 {
		results = []Val{res}
	}
	post = post.clone()
	bindResults(post, sig, ct, results)
	for _, c := range ct.Ensures {
		t, err := post.evalBool(c.E)
		if err != nil {
			if strings.Contains(err.Error(), "unknown identifier") && !ct.Trusted {
				// the clause talks about a local of the callee: it is proved there, the caller cannot use it
				continue
			}
			return Val{}, fmt.Errorf("%s:%d: %v", c.File, c.Line, err)
		}
		x.sc.Assume(reach, t)
	}
	// call probes: named model values a replay harness can use (first call site wins the bare name)
	for _, pc := range ct.Probes {
		v, err := post.evalRV(pc.E)
		if err != nil || len(v.L) != 1 {
			continue
		}
		name := pc.Label
		n := 1
		for x.hasProbe(name) {
			n++
			name = fmt.Sprintf("%s_%d", pc.Label, n)
		}
		x.entryProbes = append(x.entryProbes, Probe{Name: name, Term: x.sc.Define("probe", sortOfVal(x, v), v.L[0])})
	}
	return res, nil
}

func (x *Exec) hasProbe(name string) bool {
	for _, p := range x.entryProbes {
		if p.Name == name {
			return true
		}
	}
	return false
}

func shortName(s string) string {
	s = strings.ReplaceAll(s, "(", "")
	s = strings.ReplaceAll(s, ")", "")
	s = strings.ReplaceAll(s, "*", "")
	return s
}

func paramNamesNoRecv(sig *types.Signature) []string {
	var names []string
	for i := 0; i < sig.Params().Len(); i++ {
		names = append(names, sig.Params().At(i).Name())
	}
	return names
}

// havocPlace forgets the contents of the location(s) denoted by a modifies expression.
func (x *Exec) havocPlace(env *Env, m Expr, st *State, reach string) error {
	// pointee(x): every field of the object the interface value x points to (dynamic type known at the call site)
	if c, ok := m.(*ECall); ok {
		if id, ok := c.Fn.(*EIdent); ok && id.Name == "pointee" && len(c.Args) == 1 {
			v, err := env.evalRV(c.Args[0])
			if err != nil {
				return err
			}
			var pt types.Type
			if len(v.L) == 2 {
				var tag int
				if _, serr := fmt.Sscanf(v.L[0], "%d", &tag); serr == nil && tag > 0 && isLiteral(v.L[0]) {
					pt = x.eng.typeOfTag(tag)
				}
			} else if len(v.L) == 1 {
				pt = v.Typ
			}
			ptr, isPtr := pt, false
			if pt != nil {
				_, isPtr = pt.Underlying().(*types.Pointer)
			}
			if !isPtr {
				x.note("pointee() of a value whose dynamic type is not statically known: heap havocked")
				x.havocAll(st)
				return nil
			}
			obj := v.L[len(v.L)-1]
			elemT := ptr.Underlying().(*types.Pointer).Elem()
			cl := cell{root: elemT, obj: obj}
			for _, l := range x.eng.layout(elemT) {
				x.leafWrite(st, cl, l, x.sc.Fresh("hvp", l.Sort))
			}
			return nil
		}
	}
	// mapOf(e): contents of the map e
	if c, ok := m.(*ECall); ok {
		if id, ok := c.Fn.(*EIdent); ok && id.Name == "mapOf" && len(c.Args) == 1 {
			v, err := env.evalRV(c.Args[0])
			if err != nil {
				return err
			}
			mt, ok := v.Typ.Underlying().(*types.Map)
			if !ok {
				return fmt.Errorf("mapOf wants a map")
			}
			ks, ok := keySort(mt.Key())
			if !ok {
				return nil
			}
			dn := x.mdName(mt)
			ds := "(Array Int (Array " + ks + " Bool))"
			d := st.Get(dn, ds)
			st.Set(dn, ds, Store(d, v.L[0], x.sc.Fresh("hvdom", "(Array "+ks+" Bool)")))
			x.markWrittenAt(dn, v.L[0])
			for _, l := range x.eng.layout(mt.Elem()) {
				vn := x.mvName(mt, l.Path)
				vs := "(Array Int (Array " + ks + " " + l.Sort + "))"
				a := st.Get(vn, vs)
				st.Set(vn, vs, Store(a, v.L[0], x.sc.Fresh("hvval", "(Array "+ks+" "+l.Sort+")")))
				x.markWrittenAt(vn, v.L[0])
			}
			return nil
		}
		if id, ok := c.Fn.(*EIdent); ok && id.Name == "elemsOf" && len(c.Args) == 1 {
			v, err := env.evalRV(c.Args[0])
			if err != nil {
				return err
			}
			stt, ok := v.Typ.Underlying().(*types.Slice)
			if !ok {
				return fmt.Errorf("elemsOf wants a slice")
			}
			for _, l := range x.eng.layout(stt.Elem()) {
				name := x.eName(stt.Elem(), l.Path)
				sort := "(Array Int (Array Int " + l.Sort + "))"
				a := st.Get(name, sort)
				st.Set(name, sort, Store(a, v.L[0], x.sc.Fresh("hvrow", "(Array Int "+l.Sort+")")))
				x.markWrittenAt(name, v.L[0])
			}
			return nil
		}
	}
	// ghostmap[k] : one entry of a ghost map
	if ix, ok := m.(*EIndex); ok {
		if id, ok := ix.X.(*EIdent); ok {
			if g, isGhost := x.eng.CS.Ghosts[id.Name]; isGhost {
				sort, err := ghostSort(g.Type)
				if err != nil {
					return err
				}
				kv, err := env.evalRV(ix.I)
				if err != nil {
					return err
				}
				inner := strings.TrimSuffix(strings.TrimPrefix(sort, "(Array "), ")")
				parts := strings.SplitN(inner, " ", 2)
				if len(parts) != 2 || len(kv.L) != 1 {
					return fmt.Errorf("ghost %s is not a map", id.Name)
				}
				a := st.Get("G:"+g.Name, sort)
				st.Set("G:"+g.Name, sort, Store(a, kv.L[0], x.sc.Fresh("hvg", parts[1])))
				x.markWritten("G:" + g.Name)
				return nil
			}
		}
	}
	// every("T").field : the field of every object of type T
	if s, ok := m.(*ESel); ok {
		if c, ok := s.X.(*ECall); ok {
			if id, ok := c.Fn.(*EIdent); ok && id.Name == "every" && len(c.Args) == 1 {
				ts, ok := c.Args[0].(*EStr)
				if !ok {
					return fmt.Errorf("every(\"T\").field wants a type name")
				}
				t, err := x.eng.lookupType(ts.V, env.imports, env.pkgPath)
				if err != nil {
					return err
				}
				_, ls := x.eng.subLayout(t, s.Name)
				if len(ls) == 0 {
					return fmt.Errorf("type %s has no field %s", ts.V, s.Name)
				}
				for _, l := range ls {
					st.Havoc(x.hName(t, joinPath(s.Name, l.Path)), "(Array Int "+l.Sort+")")
					x.markWritten(x.hName(t, joinPath(s.Name, l.Path)))
				}
				return nil
			}
		}
	}
	if id, ok := m.(*EIdent); ok {
		if g, isGhost := x.eng.CS.Ghosts[id.Name]; isGhost {
			sort, err := ghostSort(g.Type)
			if err != nil {
				return err
			}
			st.Havoc("G:"+g.Name, sort)
			x.markWritten("G:" + g.Name)
			return nil
		}
	}
	// ghost field: x.ghostname
	if s, ok := m.(*ESel); ok {
		xv, err := env.eval(s.X)
		if err == nil {
			t := xv.Typ
			if xv.place != nil {
				t = xv.place.typ
			}
			if t != nil {
				if pt, isPtr := t.Underlying().(*types.Pointer); isPtr {
					if gf, ok := x.eng.CS.Ghosts[x.ghostFieldKey(pt.Elem(), s.Name)]; ok {
						pv, err := env.rv(xv)
						if err != nil {
							return err
						}
						sort, err := ghostSort(gf.Type)
						if err != nil {
							return err
						}
						name := "G:" + gf.Name
						as := "(Array Int " + sort + ")"
						a := st.Get(name, as)
						st.Set(name, as, Store(a, pv.L[0], x.sc.Fresh("hvg", sort)))
						x.markWrittenAt(name, pv.L[0])
						return nil
					}
				}
			}
		}
	}
	v, err := env.eval(m)
	if err != nil {
		return err
	}
	if v.place == nil {
		return fmt.Errorf("not a location")
	}
	for _, l := range x.eng.layout(v.place.typ) {
		x.leafWrite(st, v.place.c, l, x.sc.Fresh("hvf", l.Sort))
	}
	// re-assume type invariants of the havocked location
	nv, _ := env.rv(SVal{place: v.place})
	nenv := *env
	nenv.st = st
	nv, _ = nenv.rv(SVal{place: v.place})
	x.assumeTypeInv(nv.Val, st, reach)
	return nil
}

// ---------------- builtins ----------------

func (x *Exec) builtin(b *ssa.Builtin, common *ssa.CallCommon, args []Val, resT types.Type, st *State, reach string, pos token.Pos) Val {
	switch b.Name() {
	case "len":
		a := args[0]
		switch t := common.Args[0].Type().Underlying().(type) {
		case *types.Basic:
			return Val{Typ: resT, L: []string{x.sc.Define("len", "Int", "(str.len "+a.L[0]+")")}}
		case *types.Slice:
			return Val{Typ: resT, L: []string{a.L[2]}}
		case *types.Map:
			return Val{Typ: resT, L: []string{x.mapLen(st, t, a.L[0], reach)}}
		case *types.Array:
			return Val{Typ: resT, L: []string{fmt.Sprintf("%d", t.Len())}}
		case *types.Pointer:
			if at, ok := t.Elem().Underlying().(*types.Array); ok {
				return Val{Typ: resT, L: []string{fmt.Sprintf("%d", at.Len())}}
			}
		}
		r := x.freshVal(resT, "len", st, reach)
		x.sc.Assume(reach, "(>= "+r.L[0]+" 0)")
		return r
	case "cap":
		r := x.freshVal(resT, "cap", st, reach)
		if len(args[0].L) == 3 {
			x.sc.Assume(reach, "(>= "+r.L[0]+" "+args[0].L[2]+")")
		}
		return r
	case "append":
		return x.appendOp(args[0], args[1], common.Args[0].Type(), st, reach)
	case "delete":
		mt, ok := common.Args[0].Type().Underlying().(*types.Map)
		if !ok {
			return Val{Typ: resT}
		}
		ks, ok := keySort(mt.Key())
		if !ok || len(args[1].L) != 1 {
			x.note("unsupported: delete with key type %s", x.eng.typeKey(mt.Key()))
			return Val{Typ: resT}
		}
		dn := x.mdName(mt)
		ds := "(Array Int (Array " + ks + " Bool))"
		d := st.Get(dn, ds)
		m := args[0].L[0]
		// delete on a nil map is a no-op
		st.Set(dn, ds, Ite(Eq(m, "0"), d, Store(d, m, Store(Select(d, m), args[1].L[0], "false"))))
		x.markWrittenAt(dn, m)
		return Val{Typ: resT}
	case "copy":
		// copy(dst, src): n = min(len(dst), len(src)) elements of src land at the start of dst, the
		// rest of dst's backing array keeps its contents (src is read before dst is written; Go's
		// copy handles overlap as if through a temporary).
		stt, ok := common.Args[0].Type().Underlying().(*types.Slice)
		if ok && len(args[0].L) == 3 && len(args[1].L) == 3 {
			n := x.sc.Define("copyn", "Int", Ite("(<= "+args[0].L[2]+" "+args[1].L[2]+")", args[0].L[2], args[1].L[2]))
			for _, l := range x.eng.layout(stt.Elem()) {
				name := x.eName(stt.Elem(), l.Path)
				sort := "(Array Int (Array Int " + l.Sort + "))"
				a := st.Get(name, sort)
				row := x.sc.Fresh("copyrow", "(Array Int "+l.Sort+")")
				dOff, sOff := args[0].L[1], args[1].L[1]
				x.sc.Assume(reach, "(forall ((i Int)) (! (=> (and (<= "+dOff+" i) (< i (+ "+dOff+" "+n+"))) (= (select "+row+" i) "+Select(Select(a, args[1].L[0]), "(+ "+sOff+" (- i "+dOff+"))")+")) :pattern ((select "+row+" i))))")
				x.sc.Assume(reach, "(forall ((i Int)) (! (=> (not (and (<= "+dOff+" i) (< i (+ "+dOff+" "+n+")))) (= (select "+row+" i) "+Select(Select(a, args[0].L[0]), "i")+")) :pattern ((select "+row+" i))))")
				st.Set(name, sort, Store(a, args[0].L[0], row))
				x.markWrittenAt(name, args[0].L[0])
			}
			return Val{Typ: resT, L: []string{n}}
		}
		if ok && len(args[0].L) == 3 {
			for _, l := range x.eng.layout(stt.Elem()) {
				name := x.eName(stt.Elem(), l.Path)
				sort := "(Array Int (Array Int " + l.Sort + "))"
				a := st.Get(name, sort)
				st.Set(name, sort, Store(a, args[0].L[0], x.sc.Fresh("copyrow", "(Array Int "+l.Sort+")")))
				x.markWrittenAt(name, args[0].L[0])
			}
		}
		x.note("copy(): destination contents havocked")
		r := x.freshVal(resT, "copied", st, reach)
		return r
	case "print", "println":
		return Val{Typ: resT}
	case "min", "max":
		if len(args) == 2 && len(args[0].L) == 1 && isIntT(args[0].Typ) {
			op := "<="
			if b.Name() == "max" {
				op = ">="
			}
			return Val{Typ: resT, L: []string{Ite("("+op+" "+args[0].L[0]+" "+args[1].L[0]+")", args[0].L[0], args[1].L[0])}}
		}
	case "close":
		return Val{Typ: resT}
	case "recover":
		return x.eng.zeroVal(resT)
	case "ssa:wrapnilchk":
		x.safeNonNil(args[0].L[0], reach, pos, "nil-deref")
		return args[0]
	}
	x.note("unsupported: builtin %s", b.Name())
	if tup, ok := resT.(*types.Tuple); ok && tup.Len() == 0 {
		return Val{Typ: resT}
	}
	return x.freshVal(resT, "builtin", st, reach)
}

// ---------------- frame obligations ----------------

// frameObligations emits, for every heap array the function wrote, the obligation that
// locations outside the modifies clause kept their entry value.
func (x *Exec) frameObligations(fn *ssa.Function, c *Contract, params []Val, r retSite, entry *State) {
	env := x.envForFunc(fn, c, params, nil, entry, entry)
	// collect allowed places (evaluated in the entry state)
	type allowed struct {
		name string // heap array name
		obj  string
		all  bool // whole array row (map contents)
	}
	var allow []allowed
	wholeArrays := map[string]bool{}
	for _, m := range c.Modifies {
		if sel, ok := m.(*ESel); ok {
			if call, ok := sel.X.(*ECall); ok {
				if id, ok := call.Fn.(*EIdent); ok && id.Name == "every" && len(call.Args) == 1 {
					if ts, ok := call.Args[0].(*EStr); ok {
						if t, err := x.eng.lookupType(ts.V, c.Imports, c.PkgPath); err == nil {
							_, ls := x.eng.subLayout(t, sel.Name)
							for _, l := range ls {
								wholeArrays[x.hName(t, joinPath(sel.Name, l.Path))] = true
							}
						}
					}
					continue
				}
			}
		}
		if call, ok := m.(*ECall); ok {
			if id, ok := call.Fn.(*EIdent); ok && (id.Name == "mapOf" || id.Name == "elemsOf") && len(call.Args) == 1 {
				v, err := env.evalRV(call.Args[0])
				if err != nil {
					continue
				}
				if mt, ok := v.Typ.Underlying().(*types.Map); ok {
					allow = append(allow, allowed{name: x.mdName(mt), obj: v.L[0]})
					for _, l := range x.eng.layout(mt.Elem()) {
						allow = append(allow, allowed{name: x.mvName(mt, l.Path), obj: v.L[0]})
					}
				}
				if stt, ok := v.Typ.Underlying().(*types.Slice); ok {
					for _, l := range x.eng.layout(stt.Elem()) {
						allow = append(allow, allowed{name: x.eName(stt.Elem(), l.Path), obj: v.L[0]})
					}
				}
				continue
			}
		}
		v, err := env.eval(m)
		if err != nil || v.place == nil {
			continue
		}
		for _, l := range x.eng.layout(v.place.typ) {
			full := joinPath(v.place.c.prefix, l.Path)
			if v.place.c.elem {
				allow = append(allow, allowed{name: x.eName(v.place.c.root, full), obj: v.place.c.obj})
			} else {
				allow = append(allow, allowed{name: x.hName(v.place.c.root, full), obj: v.place.c.obj})
			}
		}
	}
	alloc0 := entry.Get(allocName, "Int")
	if r.st.hav {
		x.addObl(&Obligation{Kind: "frame", Label: "modifies", Pos: x.pos(r.pos), Reach: r.reach, Goal: "false",
			ClauseSrc: "modifies " + strings.Join(c.ModSrc, ", ") + " (a call without a frame contract havocked the heap)",
			Name:      fmt.Sprintf("%s#frame.havoc@ret%d", shortFn(fn), r.block)})
		return
	}
	// ghost state: a ghost the function (through its callees' contracts) changed must be named
	ghostAllowed := func(name string) bool {
		g := strings.TrimPrefix(name, "G:")
		for _, m := range c.Modifies {
			switch e := m.(type) {
			case *EIdent:
				if e.Name == g {
					return true
				}
			case *EIndex:
				if id, ok := e.X.(*EIdent); ok && id.Name == g {
					return true
				}
			case *ESel:
				if strings.HasSuffix(g, "."+e.Name) {
					return true
				}
			}
		}
		return false
	}
	for _, name := range sortedKeys(r.st.heap) {
		if strings.HasPrefix(name, "G:") && name != allocName {
			sort := x.arraySort[name]
			if sort == "" {
				continue
			}
			now := r.st.Get(name, sort)
			was := entry.Get(name, sort)
			if now == was || ghostAllowed(name) {
				continue
			}
			x.addObl(&Obligation{Kind: "frame", Label: "modifies", Pos: x.pos(r.pos), Reach: r.reach, Goal: Eq(now, was),
				ClauseSrc: "modifies " + strings.Join(c.ModSrc, ", ") + " (ghost " + strings.TrimPrefix(name, "G:") + " is not listed)",
				Name:      fmt.Sprintf("%s#frame.%s@ret%d", shortFn(fn), sanitize(name), r.block)})
			continue
		}
		if strings.HasPrefix(name, "G:") || strings.HasPrefix(name, "V:") || strings.HasPrefix(name, "P:") {
			continue
		}
		sort := x.arraySort[name]
		if wholeArrays[name] {
			continue
		}
		now := r.st.Get(name, sort)
		was := entry.Get(name, sort)
		if now == was {
			continue
		}
		o := x.sc.Fresh("frame_o", "Int")
		conds := []string{"(<= 0 " + o + ")", "(< " + o + " " + alloc0 + ")"}
		for _, a := range allow {
			if a.name == name {
				conds = append(conds, Not(Eq(o, a.obj)))
			}
		}
		goal := Implies(And(conds...), Eq(Select(now, o), Select(was, o)))
		x.addObl(&Obligation{Kind: "frame", Label: "modifies", Pos: x.pos(r.pos), Reach: r.reach, Goal: goal,
			ClauseSrc: "modifies " + strings.Join(c.ModSrc, ", "),
			Name:      fmt.Sprintf("%s#frame.%s@ret%d", shortFn(fn), sanitize(name), r.block)})
	}
}

func sanitize(s string) string {
	r := strings.NewReplacer("/", ".", " ", "", "*", "p.", "[", "_", "]", "_", "(", "", ")", "", ":", ".")
	return r.Replace(s)
}
