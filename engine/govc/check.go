package govc

import (
	"bufio"
	"encoding/json"
	"fmt"
	"os"
	"path/filepath"
	"regexp"
	"sort"
	"strconv"
	"strings"
	"time"
)

type KnownFinding struct {
	Kind       string // known | fixed
	Property   string
	Obligation string // obligation name without the @site suffix
	Class      string // contract expression characterising the failing inputs ("-" = whole obligation)
	Replay     string
	What       string
	Raw        string
}

var kvRe = regexp.MustCompile(`^(\w+)=(\S+)$`)

func loadKnown(path string) ([]KnownFinding, error) {
	f, err := os.Open(path)
	if err != nil {
		if os.IsNotExist(err) {
			return nil, nil
		}
		return nil, err
	}
	defer f.Close()
	var out []KnownFinding
	sc := bufio.NewScanner(f)
	for sc.Scan() {
		line := strings.TrimSpace(sc.Text())
		if line == "" || strings.HasPrefix(line, "#") {
			continue
		}
		k := KnownFinding{Raw: line}
		switch {
		case strings.HasPrefix(line, "known:"):
			k.Kind = "known"
			rest := strings.TrimSpace(line[len("known:"):])
			if i := strings.Index(rest, " :: "); i >= 0 {
				k.What = strings.TrimSpace(rest[i+4:])
				rest = rest[:i]
			}
			// class= may contain spaces: it extends to " replay=" or end
			if ci := strings.Index(rest, " class="); ci >= 0 {
				tail := rest[ci+7:]
				end := strings.Index(tail, " replay=")
				if end < 0 {
					k.Class = strings.TrimSpace(tail)
					rest = rest[:ci]
				} else {
					k.Class = strings.TrimSpace(tail[:end])
					rest = rest[:ci] + tail[end:]
				}
			}
			for _, f := range strings.Fields(rest) {
				if m := kvRe.FindStringSubmatch(f); m != nil {
					switch m[1] {
					case "property":
						k.Property = m[2]
					case "obligation":
						k.Obligation = m[2]
					case "replay":
						k.Replay = m[2]
					}
				}
			}
		case strings.HasPrefix(line, "fixed:"):
			k.Kind = "fixed"
			rest := strings.TrimSpace(line[len("fixed:"):])
			fs := strings.Fields(rest)
			for _, f := range fs {
				if m := kvRe.FindStringSubmatch(f); m != nil && m[1] == "property" {
					k.Property = m[2]
				}
			}
			k.What = rest
		default:
			continue
		}
		out = append(out, k)
	}
	return out, nil
}

func stripSite(name string) string {
	if i := strings.Index(name, "@"); i >= 0 {
		return name[:i]
	}
	return name
}

type propMeta struct {
	NotDecided  []string `json:"not_decided"`
	Assumptions []string `json:"assumptions"`
	Bounded     []string `json:"bounded"`
}

type oblReport struct {
	Name    string  `json:"obligation"`
	Kind    string  `json:"kind"`
	Clause  string  `json:"clause,omitempty"`
	Pos     string  `json:"pos"`
	Status  string  `json:"status"`
	Solver  string  `json:"solver"`
	Seconds float64 `json:"seconds"`
}

func hasProp(ps []string, p string) bool {
	for _, q := range ps {
		if q == p {
			return true
		}
	}
	return false
}

var commonTrustedBase = []string{
	"govc itself: the go/ssa -> verification-condition translation, heap model and contract parser in /verif/engine (tested by the must-fail corpus, not verified)",
	"golang.org/x/tools go/packages + go/ssa v0.29.0 (front end; the verified text is the SSA of /repo's working tree built with -tags=verif on every run)",
	"SMT solvers z3 4.8.12, z3 5.1.0, cvc5 1.0 (raced; disagreement between definite answers is an error)",
}

var commonAssumptions = []string{
	"machine integers are treated as mathematical integers with the type's range assumed on inputs and loads (no wrap-around on + - *)",
	"strings are SMT-LIB strings; Go strings are assumed ASCII (one character per byte)",
	"append always copies (no aliasing through spare capacity); slicing an array pointer copies the array",
	"no concurrency semantics: go statements and channel operations havoc what they may touch; deferred non-effect-free calls havoc the heap at exit",
	"pointer parameters point at whole allocated cells, never into the interior of another object",
	"floating point values are opaque",
	"a call to a function without a contract that is neither inlined nor on the effect-free list havocs the whole heap (sound over-approximation)",
	"functions of packages on the effect-free list (logging, fmt, strings, strconv, time, context, regexp, grpc status/codes, uuid, rand, protobuf getters/String) do not modify modelled state; unless a library contract says more their results are unconstrained",
}

func cmdCheck(args []string) int {
	t0 := time.Now()
	if len(args) < 1 {
		fmt.Fprintln(os.Stderr, "usage: govc check <property> [--tier quick|thorough]")
		return 2
	}
	prop := args[0]
	tier := os.Getenv("VERIF_TIER")
	for i := 1; i < len(args); i++ {
		if args[i] == "--tier" && i+1 < len(args) {
			tier = args[i+1]
			i++
		}
	}
	if tier != "thorough" {
		tier = "quick"
	}
	seed := 0
	if s := os.Getenv("VERIF_SEED"); s != "" {
		seed, _ = strconv.Atoi(s)
	}
	timeoutS := 30
	if tier == "thorough" {
		timeoutS = 120
	}
	evidencePath := filepath.Join(VerifDir, "evidence", prop+".json")
	os.MkdirAll(filepath.Dir(evidencePath), 0o755)
	os.Remove(evidencePath)

	violations := 0
	violate := func(obl, reason, replayBody string, reproduced bool) {
		violations++
		dir := filepath.Join(VerifDir, "replays", prop)
		os.MkdirAll(dir, 0o755)
		file := filepath.Join(dir, fileSafe(obl)+".json")
		os.WriteFile(file, []byte(replayBody), 0o644)
		rel, _ := filepath.Rel(VerifDir, file)
		suffix := ""
		if !reproduced {
			suffix = " no-failing-input-found"
		}
		fmt.Printf("FAILED property=%s obligation=%s reason=%s\n", prop, obl, reason)
		fmt.Printf("VIOLATION property=%s replay=%s%s\n", prop, rel, suffix)
	}

	e, err := loadAll()
	if err != nil {
		// the repository (or a contract file) does not load: nothing can be shown on this tree
		body, _ := json.MarshalIndent(map[string]interface{}{"obligation": "load", "reason": "repository-does-not-load", "error": err.Error()}, "", " ")
		violate("load", "repository-does-not-load", string(body), false)
		writeEvidence(evidencePath, prop, tier, seed, nil, nil, 0, 0, time.Since(t0).Seconds(), violations, nil, nil, nil, propMeta{}, nil)
		return 1
	}
	loadS := time.Since(t0).Seconds()

	// which functions carry this property
	var keys []string
	for k, c := range e.CS.ByKey {
		if verifiesFor(c, prop) {
			keys = append(keys, k)
		}
	}
	sort.Strings(keys)
	var obls []*Obligation
	var notes []string
	usedTrust := map[string]bool{}
	inlined := map[string]bool{}
	genErrs := 0
	for _, k := range keys {
		c := e.CS.ByKey[k]
		fn := e.FuncByKey(k)
		if fn == nil {
			body, _ := json.MarshalIndent(map[string]interface{}{"obligation": k, "reason": "contract-target-missing",
				"detail": "the function this contract is attached to no longer exists in /repo; the property cannot be shown on this tree", "contract": fmt.Sprintf("%s:%d", c.File, c.Line)}, "", " ")
			violate(shortKey(k)+"#target", "contract-target-missing", string(body), false)
			genErrs++
			continue
		}
		x := e.NewExec(fn, c)
		os2, err := x.VerifyRoot()
		if err != nil {
			body, _ := json.MarshalIndent(map[string]interface{}{"obligation": k, "reason": "contract-does-not-apply",
				"detail": err.Error()}, "", " ")
			violate(shortKey(k)+"#contract", "contract-does-not-apply", string(body), false)
			genErrs++
			continue
		}
		for _, o := range os2 {
			if c.Trusted && (o.Kind == "ensures" || o.Kind == "frame" || (o.Kind == "cover" && o.Label == "return")) {
				continue // safety-only sweep of a function whose functional contract stays assumed
			}
			if len(o.Props) == 0 || hasProp(o.Props, prop) {
				obls = append(obls, o)
			}
		}
		for n := range x.Notes {
			notes = append(notes, shortKey(k)+": "+n)
		}
		for n := range x.UsedTrust {
			usedTrust[n] = true
		}
		for n := range x.Inlined {
			inlined[n] = true
		}
	}
	// pure lemmas
	lemObls, err := e.lemmaObligations(prop)
	if err != nil {
		body, _ := json.MarshalIndent(map[string]interface{}{"obligation": "lemma", "reason": "contract-does-not-apply", "detail": err.Error()}, "", " ")
		violate("lemma", "contract-does-not-apply", string(body), false)
	}
	obls = append(obls, lemObls...)

	known, _ := loadKnown(filepath.Join(VerifDir, "known_findings.txt"))
	genS := time.Since(t0).Seconds() - loadS
	SetSeed(seed)
	results := solveAll(obls, timeoutS, tier == "thorough", seed)

	expected := loadExpected(filepath.Join(VerifDir, "expected_obligations.json"))

	perSolver := map[string]*struct {
		N int
		S float64
	}{}
	discharged := 0
	total := 0
	var reports []oblReport
	unreachable := map[string]int{}
	unreachableNames := map[string][]string{}
	var knownHit []string
	var knownObls []string
	knownSeen := map[string]bool{}
	seenNames := map[string]bool{}
	solverWall := 0.0
	for i, o := range obls {
		r := results[i]
		seenNames[stripSite(o.Name)] = true
		ok := r.Status == "unsat"
		if o.ExpectSat {
			ok = r.Status == "sat"
		}
		solverWall += r.Seconds
		if r.Solver != "" {
			ps := perSolver[r.Solver]
			if ps == nil {
				ps = &struct {
					N int
					S float64
				}{}
				perSolver[r.Solver] = ps
			}
			ps.N++
			ps.S += r.Seconds
		}
		if o.Parts > 1 {
			o.ClauseSrc = fmt.Sprintf("(conjunct %d of %d) %s", o.Part, o.Parts, o.ClauseSrc)
		}
		reports = append(reports, oblReport{Name: o.Name, Kind: o.Kind, Clause: o.ClauseSrc, Pos: o.Pos, Status: r.Status, Solver: r.Solver, Seconds: round3(r.Seconds)})
		if o.Kind == "cover" {
			// vacuity guard, not a proof obligation. For return sites only a definite `unsat` (the
			// return is unreachable under the assumptions made on the way) counts: `unknown` is what the
			// solvers say about satisfiable quantified formulas.
			if o.Label == "return" {
				if r.Status == "unsat" {
					unreachable[o.Func]++
					unreachableNames[o.Func] = append(unreachableNames[o.Func], o.Name)
				}
				continue
			}
			if !ok {
				body, _ := json.MarshalIndent(map[string]interface{}{"obligation": o.Name, "reason": "vacuous-contract",
					"detail": "the preconditions of this function are unsatisfiable (or the solver could not find a witness); every obligation below it would pass vacuously", "solver": r.Solver, "status": r.Status}, "", " ")
				violate(o.Name, "vacuous-contract", string(body), false)
			}
			continue
		}
		total++
		if ok {
			discharged++
			continue
		}
		// failed: known finding?
		if kf := matchKnown(known, prop, o); kf != nil {
			carved, _ := e.checkCarveOut(o, kf, timeoutS, seed)
			if carved {
				total-- // not part of the claimed (proved) obligation set; reported separately
				knownObls = append(knownObls, o.Name)
				if !knownSeen[kf.Raw] {
					knownSeen[kf.Raw] = true
					knownHit = append(knownHit, kf.Raw)
					// the recorded input must still fail on the real code
					still, _ := tryReplay(e, prop, o, r)
					if still {
						fmt.Printf("KNOWN-FINDING: property=%s %s\n", prop, kf.What)
					} else {
						fmt.Printf("KNOWN-FINDING: property=%s %s (note: the recorded input no longer reproduces on the real code although the obligation still fails)\n", prop, kf.What)
					}
				}
				continue
			}
		}
		reproduced, replayOut := tryReplay(e, prop, o, r)
		body, _ := json.MarshalIndent(map[string]interface{}{
			"obligation": o.Name, "kind": o.Kind, "clause": o.ClauseSrc, "pos": o.Pos, "function": o.Func,
			"solver": r.Solver, "status": r.Status, "per_solver": r.All, "model": r.Model, "solver_output": truncate(r.Raw, 4000),
			"replay": replayOut, "reproduced_on_real_code": reproduced,
		}, "", " ")
		reason := "obligation-failed"
		if r.Status != "sat" {
			reason = "obligation-undischarged-" + r.Status
		}
		violate(o.Name, reason, string(body), reproduced)
	}
	// bounded stand-ins registered for this property (reported apart from the proof obligations)
	var boundedResults []boundedResult
	for _, ent := range loadBounded() {
		if !hasProp(ent.Props, prop) {
			continue
		}
		br := runBounded(ent, tier)
		boundedResults = append(boundedResults, br)
		if br.Status == "violated" {
			// a bounded check listed as a known finding: it must still fail on its recorded input
			isKnown := false
			for i := range known {
				if known[i].Kind == "known" && known[i].Property == prop && known[i].Obligation == "bounded."+ent.ID {
					isKnown = true
					knownHit = append(knownHit, known[i].Raw)
					fmt.Printf("KNOWN-FINDING: property=%s %s [%s]\n", prop, known[i].What, truncate(br.Detail, 300))
				}
			}
			if isKnown {
				continue
			}
		}
		if br.Status != "ok" {
			body, _ := json.MarshalIndent(map[string]interface{}{"obligation": "bounded." + ent.ID, "kind": "bounded", "what": ent.What, "bound": br.Bound,
				"status": br.Status, "failing_input": br.Detail, "reproduced_on_real_code": br.Status == "violated",
				"note": "bounded stand-in: the real function was run on the failing input; this line is its output"}, "", " ")
			violate("bounded."+ent.ID, "bounded-check-"+br.Status, string(body), br.Status == "violated")
		}
	}
	// vacuity: a return site that is unreachable under the assumptions made on the way to it proves its
	// postconditions vacuously. Dead default branches exist (record invariants bound the enums), so the
	// number of unreachable returns per function is compared with the reference tree.
	for fn, n := range unreachable {
		exp := 0
		for _, name := range expected["unreachable-returns"] {
			if strings.HasPrefix(name, fn+"=") {
				exp, _ = strconv.Atoi(name[len(fn)+1:])
			}
		}
		if n > exp {
			body, _ := json.MarshalIndent(map[string]interface{}{"obligation": shortKey(fn) + "#cover.return", "reason": "vacuous-return",
				"detail": fmt.Sprintf("%d return sites are unreachable under the contracts assumed on the way to them (%d on the reference tree): their postconditions would hold vacuously", n, exp),
				"sites":  unreachableNames[fn]}, "", " ")
			violate(shortKey(fn)+"#cover.return", "vacuous-return", string(body), false)
		}
	}
	// vacuity: expected obligations must still be generated
	missing := 0
	for _, name := range expected[prop] {
		if !seenNames[name] {
			missing++
			body, _ := json.MarshalIndent(map[string]interface{}{"obligation": name, "reason": "obligation-vanished",
				"detail": "this obligation was generated and discharged on the reference tree but is no longer generated: the code it talked about (call site, loop, return) is gone, so the property is not shown"}, "", " ")
			violate(name, "obligation-vanished", string(body), false)
		}
	}
	if total == 0 && violations == 0 && len(boundedResults) == 0 {
		body, _ := json.MarshalIndent(map[string]interface{}{"obligation": "none", "reason": "no-obligations"}, "", " ")
		violate("none", "no-obligations", string(body), false)
	}
	// assumed contracts scan
	for _, a := range e.CS.Assumes {
		if !strings.Contains(a, "/contracts/lib/") {
			body, _ := json.MarshalIndent(map[string]interface{}{"obligation": "scan", "reason": "assume-in-repo-contract", "where": a}, "", " ")
			violate("assume-scan", "assume-in-repo-contract", string(body), false)
		}
	}

	meta := loadMeta(filepath.Join(VerifDir, "properties_meta.json"))[prop]
	var fuc []string
	for _, k := range keys {
		fuc = append(fuc, shortKey(k))
	}
	var trusted []string
	for n := range usedTrust {
		trusted = append(trusted, n)
	}
	sort.Strings(trusted)
	sort.Strings(notes)
	ps := map[string]interface{}{}
	for k, v := range perSolver {
		ps[k] = map[string]interface{}{"obligations": v.N, "seconds": round3(v.S)}
	}
	extra := map[string]interface{}{
		"functions_under_contract":     fuc,
		"inlined_functions":            sortedKeys(inlined),
		"per_solver":                   ps,
		"solver_wall_s":                round3(solverWall),
		"load_s":                       round3(loadS),
		"vcgen_s":                      round3(genS),
		"known_findings":               knownHit,
		"known_finding_obligations":    knownObls,
		"not_decided":                  meta.NotDecided,
		"bounded_checks":               boundedResults,
		"bounded_notes":                meta.Bounded,
		"abstraction_notes":            notes,
		"assumed_contracts_used":       trusted,
		"assumed_clauses_in_contracts": e.CS.AssumedClauses,
		"expected_obligations":         len(expected[prop]),
		"expected_missing":             missing,
	}
	writeEvidence(evidencePath, prop, tier, seed, reports, extra, total, discharged, time.Since(t0).Seconds(), violations, trusted, notes, fuc, meta, knownHit)
	fmt.Printf("property %s: %d obligations, %d discharged, %d violations, %.1fs (load %.1fs, solver %.1fs)\n", prop, total, discharged, violations, time.Since(t0).Seconds(), loadS, solverWall)
	if violations > 0 {
		return 1
	}
	return 0
}

// verifiesFor: the function's body is verified for prop. A trusted contract is normally only
// assumed; `trusted` + `safe` asks for the no-panic obligations of the body under C12 while the
// functional clauses stay assumed.
func verifiesFor(c *Contract, prop string) bool {
	if c.Kind != "func" || !hasProp(c.Props, prop) {
		return false
	}
	return !c.Trusted || (c.Safe && prop == "C12")
}

func fileSafe(s string) string {
	var b strings.Builder
	for _, c := range s {
		switch {
		case c >= 'a' && c <= 'z', c >= 'A' && c <= 'Z', c >= '0' && c <= '9', c == '.', c == '-', c == '_':
			b.WriteRune(c)
		case c == '#' || c == '@' || c == '/':
			b.WriteByte('-')
		}
	}
	return b.String()
}

func round3(f float64) float64 { return float64(int(f*1000+0.5)) / 1000 }

func truncate(s string, n int) string {
	if len(s) > n {
		return s[:n] + "…"
	}
	return s
}

func shortKey(k string) string {
	k = strings.ReplaceAll(k, ModPath+"/pkg/", "")
	k = strings.ReplaceAll(k, ModPath+"/", "")
	return k
}

func matchKnown(known []KnownFinding, prop string, o *Obligation) *KnownFinding {
	for i := range known {
		k := &known[i]
		if k.Kind == "known" && k.Property == prop && k.Obligation == stripSite(o.Name) {
			return k
		}
	}
	return nil
}

// checkCarveOut decides whether a failing obligation fails only inside the class of a known
// finding: the clause restricted to the complement of the class must be discharged.
func (e *Engine) checkCarveOut(o *Obligation, kf *KnownFinding, timeoutS, seed int) (bool, string) {
	if kf.Class == "" || kf.Class == "-" {
		return true, "whole obligation is the known finding"
	}
	// the class is an SMT term over the probe names of the obligation: substitute probe terms
	cls := kf.Class
	for _, p := range o.Probes {
		cls = strings.ReplaceAll(cls, "$"+p.Name, p.Term)
	}
	if strings.Contains(cls, "$") {
		return false, "class mentions unknown probes"
	}
	o2 := *o
	o2.Goal = Or(cls, o.Goal)
	r := Solve(o2.Query(seed), timeoutS, false, nil)
	return r.Status == "unsat", r.Status
}

func loadExpected(path string) map[string][]string {
	out := map[string][]string{}
	b, err := os.ReadFile(path)
	if err != nil {
		return out
	}
	json.Unmarshal(b, &out)
	return out
}

func loadMeta(path string) map[string]propMeta {
	out := map[string]propMeta{}
	b, err := os.ReadFile(path)
	if err != nil {
		return out
	}
	json.Unmarshal(b, &out)
	return out
}

func writeEvidence(path, prop, tier string, seed int, reports []oblReport, extra map[string]interface{}, total, discharged int, wall float64, violations int, trusted, notes, fuc []string, meta propMeta, known []string) {
	cov := map[string]interface{}{}
	for k, v := range extra {
		cov[k] = v
	}
	cov["obligations"] = total
	cov["discharged"] = discharged
	cov["checker_cmd"] = fmt.Sprintf("/verif/bin/govc check %s --tier %s   (per obligation: z3-new -T:N q.smt2 | cvc5 --strings-exp --tlimit=N q.smt2 | z3 -T:N q.smt2, raced)", prop, tier)
	tb := append([]string(nil), commonTrustedBase...)
	for _, t := range trusted {
		tb = append(tb, t)
	}
	cov["trusted_base"] = tb
	var samples []interface{}
	// a spread of samples: first of each kind, then up to 15
	seenKind := map[string]int{}
	for _, r := range reports {
		if seenKind[r.Kind] < 3 && len(samples) < 15 {
			seenKind[r.Kind]++
			samples = append(samples, r)
		}
	}
	if samples == nil {
		samples = []interface{}{}
	}
	cov["samples"] = samples
	cov["all_obligations"] = reports
	assumptions := append([]string(nil), commonAssumptions...)
	assumptions = append(assumptions, meta.Assumptions...)
	for _, t := range trusted {
		assumptions = append(assumptions, t)
	}
	level := "proof"
	var claims map[string]struct {
		Category string `json:"category"`
		Text     string `json:"text"`
	}
	if b, err := os.ReadFile(filepath.Join(VerifDir, "tools", "claims.json")); err == nil {
		json.Unmarshal(b, &claims)
		if c, ok := claims[prop]; ok && c.Category != "" {
			level = c.Category
		}
	}
	if level != "proof" || total == 0 {
		if total == 0 {
			level = "other"
		}
		nb := 0
		if bc, ok := cov["bounded_checks"].([]boundedResult); ok {
			for _, b := range bc {
				nb += b.Cases
			}
		}
		cov["explanation"] = fmt.Sprintf("bounded stand-ins (exhaustive runs of the real functions over stated finite universes, %d cases this run) plus %d deductive proof obligations; the bounded part is labelled bounded and is not counted as proved. %s", nb, total, claims[prop].Text)
	}
	ev := map[string]interface{}{
		"property_id": prop,
		"tier":        tier,
		"seed":        seed,
		"level":       level,
		"coverage":    cov,
		"assumptions": assumptions,
		"wall_s":      round3(wall),
		"violations":  violations,
	}
	b, _ := json.MarshalIndent(ev, "", " ")
	os.WriteFile(path, b, 0o644)
}

// lemmaObligations turns `//@ lemma {P} name: expr` lines into heap-free obligations.
func (e *Engine) lemmaObligations(prop string) ([]*Obligation, error) {
	var out []*Obligation
	for _, l := range e.CS.Lemmas {
		if !hasProp(l.Props, prop) {
			continue
		}
		x := &Exec{eng: e, sc: NewScript(), arraySort: map[string]string{}, Notes: map[string]int{}, UsedTrust: map[string]bool{}, Inlined: map[string]bool{}, specDone: map[string]bool{}, revealed: map[string]bool{}}
		for _, sf := range e.CS.Specs {
			x.revealed[sf.Name] = true // lemmas are about the definitions
		}
		st := x.newEpochState()
		env := &Env{x: x, vars: map[string]Val{}, st: st, old: st, reach: "true", imports: l.Imports, pkgPath: l.PkgPath}
		t, err := env.evalBool(l.E)
		if err != nil {
			return nil, fmt.Errorf("%s:%d: %v", l.File, l.Line, err)
		}
		o := &Obligation{Kind: "lemma", Label: l.Name, Props: l.Props, Pos: fmt.Sprintf("%s:%d", l.File, l.Line), Reach: "true", Goal: t, ClauseSrc: l.Src,
			Name: "lemma." + l.Name, Script: x.sc, ScriptLen: x.sc.Len(), Func: "lemma"}
		out = append(out, o)
	}
	return out, nil
}

// cmdExpect regenerates expected_obligations.json from the current tree (run only on a tree
// where every check passes).
func cmdExpect(args []string) int {
	e, err := loadAll()
	if err != nil {
		fmt.Fprintln(os.Stderr, err)
		return 2
	}
	props := map[string]bool{}
	for _, c := range e.CS.ByKey {
		for _, p := range c.Props {
			props[p] = true
		}
	}
	for _, l := range e.CS.Lemmas {
		for _, p := range l.Props {
			props[p] = true
		}
	}
	out := map[string][]string{}
	unreach := map[string]int{}
	for _, prop := range sortedKeys(props) {
		names := map[string]bool{}
		for k, c := range e.CS.ByKey {
			if !verifiesFor(c, prop) {
				continue
			}
			fn := e.FuncByKey(k)
			if fn == nil {
				fmt.Fprintln(os.Stderr, "missing target", k)
				return 2
			}
			x := e.NewExec(fn, c)
			obls, err := x.VerifyRoot()
			if err != nil {
				fmt.Fprintln(os.Stderr, err)
				return 2
			}
			if c.Trusted {
				var keep []*Obligation
				for _, o := range obls {
					if o.Kind == "ensures" || o.Kind == "frame" || (o.Kind == "cover" && o.Label == "return") {
						continue
					}
					keep = append(keep, o)
				}
				obls = keep
			}
			var covers []*Obligation
			for _, o := range obls {
				if o.Kind == "cover" {
					if o.Label == "return" {
						covers = append(covers, o)
					}
					continue
				}
				if len(o.Props) == 0 || hasProp(o.Props, prop) {
					names[stripSite(o.Name)] = true
				}
			}
			if _, done := unreach[fn.String()]; !done {
				unreach[fn.String()] = 0
				rs := solveAll(covers, 5, false, 0)
				for i := range covers {
					if rs[i].Status == "unsat" {
						unreach[fn.String()]++
					}
				}
			}
		}
		ls, _ := e.lemmaObligations(prop)
		for _, o := range ls {
			names[stripSite(o.Name)] = true
		}
		out[prop] = sortedKeys(names)
	}
	for fn, n := range unreach {
		if n > 0 {
			out["unreachable-returns"] = append(out["unreachable-returns"], fmt.Sprintf("%s=%d", fn, n))
		}
	}
	sort.Strings(out["unreachable-returns"])
	b, _ := json.MarshalIndent(out, "", " ")
	if err := os.WriteFile(filepath.Join(VerifDir, "expected_obligations.json"), b, 0o644); err != nil {
		fmt.Fprintln(os.Stderr, err)
		return 2
	}
	n := 0
	for _, v := range out {
		n += len(v)
	}
	fmt.Printf("expected_obligations.json: %d properties, %d obligation names\n", len(out), n)
	return 0
}
