package govc

import (
	"fmt"
	"strings"
)

// ---- contract expression AST ----

type Expr interface{}

type EIdent struct{ Name string }
type EInt struct{ V string }
type EStr struct{ V string }
type EBool struct{ V bool }
type ENil struct{}
type ESel struct {
	X    Expr
	Name string
}
type EIndex struct{ X, I Expr }
type ESlice struct{ X, Lo, Hi Expr }
type ECall struct {
	Fn   Expr
	Args []Expr
}
type EUn struct {
	Op string
	X  Expr
}
type EBin struct {
	Op   string
	X, Y Expr
}
type Binder struct {
	Name string
	Type string
}
type EQuant struct {
	Forall bool
	Vars   []Binder
	Body   Expr
	In     Expr // `forall x in S :: body`: x ranges over the elements of the slice S
}
type EOld struct{ X Expr }

// ---- lexer ----

type tok struct {
	k string // "id", "int", "str", "op", "eof"
	s string
}

func lexExpr(src string) ([]tok, error) {
	var out []tok
	i := 0
	for i < len(src) {
		c := src[i]
		switch {
		case c == ' ' || c == '\t' || c == '\n' || c == '\r':
			i++
		case c >= '0' && c <= '9':
			j := i
			for j < len(src) && (src[j] >= '0' && src[j] <= '9') {
				j++
			}
			out = append(out, tok{"int", src[i:j]})
			i = j
		case c == '_' || c >= 'a' && c <= 'z' || c >= 'A' && c <= 'Z':
			j := i
			for j < len(src) && (src[j] == '_' || src[j] == '$' || src[j] >= 'a' && src[j] <= 'z' || src[j] >= 'A' && src[j] <= 'Z' || src[j] >= '0' && src[j] <= '9') {
				j++
			}
			out = append(out, tok{"id", src[i:j]})
			i = j
		case c == '"':
			j := i + 1
			var b strings.Builder
			for j < len(src) && src[j] != '"' {
				if src[j] == '\\' && j+1 < len(src) {
					j++
					switch src[j] {
					case 'n':
						b.WriteByte('\n')
					case 't':
						b.WriteByte('\t')
					default:
						b.WriteByte(src[j])
					}
					j++
					continue
				}
				b.WriteByte(src[j])
				j++
			}
			if j >= len(src) {
				return nil, fmt.Errorf("unterminated string")
			}
			out = append(out, tok{"str", b.String()})
			i = j + 1
		default:
			ops := []string{"<==>", "==>", "::", "==", "!=", "<=", ">=", "&&", "||", "!in"}
			matched := false
			for _, op := range ops {
				if strings.HasPrefix(src[i:], op) {
					// "!in" only if followed by non-identifier char
					if op == "!in" {
						if i+3 < len(src) && (src[i+3] == '_' || src[i+3] >= 'a' && src[i+3] <= 'z' || src[i+3] >= 'A' && src[i+3] <= 'Z' || src[i+3] >= '0' && src[i+3] <= '9') {
							continue
						}
					}
					out = append(out, tok{"op", op})
					i += len(op)
					matched = true
					break
				}
			}
			if matched {
				continue
			}
			if strings.ContainsRune("+-*/%<>!()[].,:", rune(c)) {
				out = append(out, tok{"op", string(c)})
				i++
				continue
			}
			return nil, fmt.Errorf("unexpected character %q at %d", c, i)
		}
	}
	out = append(out, tok{"eof", ""})
	return out, nil
}

type eparser struct {
	t []tok
	p int
}

func ParseExpr(src string) (e Expr, err error) {
	ts, err := lexExpr(src)
	if err != nil {
		return nil, err
	}
	ps := &eparser{t: ts}
	defer func() {
		if r := recover(); r != nil {
			if pe, ok := r.(parseErr); ok {
				err = fmt.Errorf("%s (in %q)", string(pe), src)
				return
			}
			panic(r)
		}
	}()
	e = ps.expr()
	if ps.peek().k != "eof" {
		ps.fail("trailing tokens starting at %q", ps.peek().s)
	}
	return e, nil
}

type parseErr string

func (p *eparser) fail(f string, a ...interface{}) { panic(parseErr(fmt.Sprintf(f, a...))) }
func (p *eparser) peek() tok                       { return p.t[p.p] }
func (p *eparser) next() tok                       { t := p.t[p.p]; p.p++; return t }
func (p *eparser) isOp(s string) bool              { return p.t[p.p].k == "op" && p.t[p.p].s == s }
func (p *eparser) isID(s string) bool              { return p.t[p.p].k == "id" && p.t[p.p].s == s }
func (p *eparser) expectOp(s string) {
	if !p.isOp(s) {
		p.fail("expected %q, got %q", s, p.peek().s)
	}
	p.p++
}

func (p *eparser) expr() Expr {
	if p.isID("forall") || p.isID("exists") {
		fa := p.next().s == "forall"
		var vars []Binder
		for {
			if p.peek().k != "id" {
				p.fail("expected binder name")
			}
			name := p.next().s
			if len(vars) == 0 && p.isID("in") {
				// forall x in S :: body
				p.p++
				in := p.iff()
				p.expectOp("::")
				body := p.expr()
				return &EQuant{Forall: fa, Vars: []Binder{{name, ""}}, Body: body, In: in}
			}
			typ := p.typeName()
			vars = append(vars, Binder{name, typ})
			if p.isOp(",") {
				p.p++
				continue
			}
			break
		}
		p.expectOp("::")
		body := p.expr()
		return &EQuant{Forall: fa, Vars: vars, Body: body}
	}
	return p.iff()
}

// typeName parses a simple type: [*][]ident[.ident] | map[type]type
func (p *eparser) typeName() string {
	var b strings.Builder
	for {
		if p.isOp("*") {
			p.p++
			b.WriteString("*")
			continue
		}
		if p.isOp("[") {
			p.p++
			p.expectOp("]")
			b.WriteString("[]")
			continue
		}
		break
	}
	if p.peek().k != "id" {
		p.fail("expected type name, got %q", p.peek().s)
	}
	id := p.next().s
	if id == "map" {
		p.expectOp("[")
		k := p.typeName()
		p.expectOp("]")
		v := p.typeName()
		b.WriteString("map[" + k + "]" + v)
		return b.String()
	}
	b.WriteString(id)
	if p.isOp(".") {
		p.p++
		if p.peek().k != "id" {
			p.fail("expected identifier after '.' in type")
		}
		b.WriteString("." + p.next().s)
	}
	return b.String()
}

func (p *eparser) iff() Expr {
	x := p.imp()
	for p.isOp("<==>") {
		p.p++
		y := p.imp()
		x = &EBin{"<==>", x, y}
	}
	return x
}

func (p *eparser) imp() Expr {
	x := p.or()
	if p.isOp("==>") {
		p.p++
		var y Expr
		if p.isID("forall") || p.isID("exists") {
			y = p.expr()
		} else {
			y = p.imp()
		}
		return &EBin{"==>", x, y}
	}
	return x
}

func (p *eparser) or() Expr {
	x := p.and()
	for p.isOp("||") {
		p.p++
		x = &EBin{"||", x, p.and()}
	}
	return x
}

func (p *eparser) and() Expr {
	x := p.cmp()
	for p.isOp("&&") {
		p.p++
		x = &EBin{"&&", x, p.cmp()}
	}
	return x
}

func (p *eparser) cmp() Expr {
	x := p.add()
	for _, op := range []string{"==", "!=", "<=", ">=", "<", ">", "!in"} {
		if p.isOp(op) {
			p.p++
			return &EBin{op, x, p.add()}
		}
	}
	if p.isID("in") {
		p.p++
		return &EBin{"in", x, p.add()}
	}
	return x
}

func (p *eparser) add() Expr {
	x := p.mul()
	for p.isOp("+") || p.isOp("-") {
		op := p.next().s
		x = &EBin{op, x, p.mul()}
	}
	return x
}

func (p *eparser) mul() Expr {
	x := p.unary()
	for p.isOp("*") || p.isOp("/") || p.isOp("%") {
		op := p.next().s
		x = &EBin{op, x, p.unary()}
	}
	return x
}

func (p *eparser) unary() Expr {
	if p.isOp("!") {
		p.p++
		return &EUn{"!", p.unary()}
	}
	if p.isOp("-") {
		p.p++
		return &EUn{"-", p.unary()}
	}
	return p.postfix()
}

func (p *eparser) postfix() Expr {
	x := p.primary()
	for {
		switch {
		case p.isOp("."):
			p.p++
			if p.peek().k != "id" {
				p.fail("expected field name after '.'")
			}
			x = &ESel{x, p.next().s}
		case p.isOp("["):
			p.p++
			var lo Expr
			if !p.isOp(":") {
				lo = p.expr()
			}
			if p.isOp(":") {
				p.p++
				var hi Expr
				if !p.isOp("]") {
					hi = p.expr()
				}
				p.expectOp("]")
				x = &ESlice{x, lo, hi}
			} else {
				p.expectOp("]")
				x = &EIndex{x, lo}
			}
		case p.isOp("("):
			p.p++
			var args []Expr
			for !p.isOp(")") {
				args = append(args, p.expr())
				if p.isOp(",") {
					p.p++
				} else {
					break
				}
			}
			p.expectOp(")")
			x = &ECall{x, args}
		default:
			return x
		}
	}
}

func (p *eparser) primary() Expr {
	t := p.next()
	switch t.k {
	case "int":
		return &EInt{t.s}
	case "str":
		return &EStr{t.s}
	case "id":
		switch t.s {
		case "true":
			return &EBool{true}
		case "false":
			return &EBool{false}
		case "nil":
			return &ENil{}
		case "old":
			p.expectOp("(")
			x := p.expr()
			p.expectOp(")")
			return &EOld{x}
		}
		return &EIdent{t.s}
	case "op":
		if t.s == "(" {
			x := p.expr()
			p.expectOp(")")
			return x
		}
	}
	p.fail("unexpected token %q", t.s)
	return nil
}
