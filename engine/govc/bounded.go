package govc

import (
	"encoding/json"
	"os"
	"path/filepath"
	"regexp"
	"strconv"
	"strings"
	"time"
)

// A bounded stand-in runs a real function of /repo exhaustively over a stated finite universe and
// compares it with the executable form of its contract. It is labelled bounded, reported apart
// from the proof obligations and never counted as proved.
type boundedEntry struct {
	ID       string            `json:"id"`
	Props    []string          `json:"props"`
	Harness  string            `json:"harness"`
	Pkg      string            `json:"pkg"`
	What     string            `json:"what"`
	Quick    map[string]string `json:"quick"`
	Thorough map[string]string `json:"thorough"`
}

type boundedResult struct {
	ID         string            `json:"id"`
	What       string            `json:"what"`
	Bound      map[string]string `json:"bound"`
	Status     string            `json:"status"` // ok | violated | error
	Cases      int               `json:"cases"`
	Seconds    float64           `json:"seconds"`
	Detail     string            `json:"detail,omitempty"`
	Exhaustive bool              `json:"exhaustive_for_bound"`
}

func loadBounded() []boundedEntry {
	b, err := os.ReadFile(filepath.Join(VerifDir, "bounded", "registry.json"))
	if err != nil {
		return nil
	}
	var out []boundedEntry
	json.Unmarshal(b, &out)
	return out
}

var casesRe = regexp.MustCompile(`BOUNDED-OK cases=(\d+)`)

func runBounded(ent boundedEntry, tier string) boundedResult { return runBoundedWith(ent, tier, nil) }

func runBoundedWith(ent boundedEntry, tier string, extra map[string][]byte) boundedResult {
	params := ent.Quick
	if tier == "thorough" && ent.Thorough != nil {
		params = ent.Thorough
	}
	res := boundedResult{ID: ent.ID, What: ent.What, Bound: params}
	tmpl, err := os.ReadFile(filepath.Join(VerifDir, "bounded", ent.Harness))
	if err != nil {
		res.Status = "error"
		res.Detail = err.Error()
		return res
	}
	src := string(tmpl)
	for k, v := range params {
		src = strings.ReplaceAll(src, "{{"+k+"}}", v)
	}
	src = strings.ReplaceAll(src, "TestVerifBounded", "TestVerifReplay")
	t0 := time.Now()
	out, runErr := RunHarnessWith(src, ent.Pkg, 40*time.Minute, extra)
	res.Seconds = round3(time.Since(t0).Seconds())
	switch {
	case strings.Contains(out, "BOUNDED-VIOLATED"):
		res.Status = "violated"
		for _, l := range strings.Split(out, "\n") {
			if strings.Contains(l, "BOUNDED-VIOLATED") {
				res.Detail = truncate(l, 2000)
				break
			}
		}
	case casesRe.MatchString(out):
		res.Status = "ok"
		res.Exhaustive = true
		res.Cases, _ = strconv.Atoi(casesRe.FindStringSubmatch(out)[1])
	default:
		res.Status = "error"
		res.Detail = truncate(tailLines(out, 15), 2000)
		if runErr != nil {
			res.Detail += " | " + runErr.Error()
		}
	}
	return res
}
