package govc

import (
	"fmt"
	"sort"
	"strings"
	"sync"
)

// Script is an append-only SMT-LIB script: declarations, definitions and guarded assumptions.
// Every obligation is checked against the whole script (or a cone-of-influence slice of it).
type Script struct {
	lines        []scriptLine
	declared     map[string]bool
	n            int
	prelude      []string // spec functions, uninterpreted functions (emitted first)
	defIndex     map[string]int
	defTerm      map[string]string
	assertIdx    map[string][]int
	assertIdxLen int
	mu           sync.Mutex
}

type scriptLine struct {
	kind  string // "decl", "def", "assert"
	name  string // symbol introduced (decl/def)
	text  string
	uses  []string // symbols referenced by the defining term / the fact (for slicing)
	guard []string // symbols of the reachability guard of an assumption
	done  bool
	lemma bool // a proved lemma assumed here: a valid fact, left out of reachability (cover) queries
}

func NewScript() *Script {
	return &Script{declared: map[string]bool{}, defIndex: map[string]int{}, defTerm: map[string]string{}}
}

// sym quotes a symbol if it is not a simple SMT-LIB symbol.
func sym(s string) string {
	simple := true
	for i := 0; i < len(s); i++ {
		c := s[i]
		if !(c >= 'a' && c <= 'z' || c >= 'A' && c <= 'Z' || c >= '0' && c <= '9' || c == '_' || c == '.' || c == '!' || c == '$' || c == '@' || c == '%' || c == '~') {
			simple = false
			break
		}
	}
	if simple && len(s) > 0 && !(s[0] >= '0' && s[0] <= '9') {
		return s
	}
	s = strings.ReplaceAll(s, "|", "!")
	s = strings.ReplaceAll(s, "\\", "!")
	return "|" + s + "|"
}

func (sc *Script) Declare(name, sort string) string {
	q := sym(name)
	if sc.declared[q] {
		return q
	}
	sc.declared[q] = true
	sc.defIndex[q] = len(sc.lines)
	sc.lines = append(sc.lines, scriptLine{kind: "decl", name: q, text: fmt.Sprintf("(declare-const %s %s)", q, sort)})
	return q
}

// Fresh declares a fresh constant.
func (sc *Script) Fresh(prefix, sort string) string {
	sc.n++
	return sc.Declare(fmt.Sprintf("%s!%d", prefix, sc.n), sort)
}

// isAtom reports whether a term is a literal or symbol (not worth naming).
func isAtom(t string) bool {
	if len(t) == 0 {
		return true
	}
	if t[0] == '(' {
		return false
	}
	return true
}

// Define introduces a named abbreviation for term and returns the name.
func (sc *Script) Define(prefix, sort, term string) string {
	if isAtom(term) {
		return term
	}
	sc.n++
	q := sym(fmt.Sprintf("%s!%d", prefix, sc.n))
	sc.declared[q] = true
	sc.defIndex[q] = len(sc.lines)
	sc.defTerm[q] = term
	sc.lines = append(sc.lines, scriptLine{kind: "def", name: q, text: fmt.Sprintf("(define-fun %s () %s %s)", q, sort, term)})
	return q
}

// Name introduces a declared constant equal to term (unlike Define it is a real symbol, usable
// inside quantifier patterns).
func (sc *Script) Name(prefix, sort, term string) string {
	if isAtom(term) {
		return term
	}
	n := sc.Fresh(prefix, sort)
	sc.lines = append(sc.lines, scriptLine{kind: "assert", text: fmt.Sprintf("(assert (= %s %s))", n, term), uses: append(termSymbols(term), n), done: true})
	return n
}

// AssertLemma adds a separately proved, universally valid fact.
func (sc *Script) AssertLemma(term string) {
	sc.lines = append(sc.lines, scriptLine{kind: "assert", text: fmt.Sprintf("(assert %s)", term), lemma: true})
}

func (sc *Script) Assert(term string) {
	if term == "true" {
		return
	}
	sc.lines = append(sc.lines, scriptLine{kind: "assert", text: fmt.Sprintf("(assert %s)", term)})
}

// Assume adds a fact that holds whenever control reaches the point described by reach.
func (sc *Script) Assume(reach, fact string) {
	if fact == "true" {
		return
	}
	t := Implies(reach, fact)
	if t == "true" {
		return
	}
	sc.lines = append(sc.lines, scriptLine{kind: "assert", text: fmt.Sprintf("(assert %s)", t), uses: termSymbols(fact), guard: termSymbols(reach), done: true})
}

// symsOf returns (and caches) the symbols a line mentions.
func (sc *Script) symsOf(i int) ([]string, []string) {
	l := &sc.lines[i]
	if !l.done {
		l.done = true
		switch l.kind {
		case "def":
			l.uses = termSymbols(sc.defTerm[l.name])
		case "assert":
			l.uses = termSymbols(l.text)
		}
	}
	return l.uses, l.guard
}

// Slice computes the cone of influence of the goal symbols over lines [0,upto) for asserts
// (definitions and declarations are taken from the whole script): the set of line indexes to emit.
// Dropping assumptions only weakens the hypotheses, so `unsat` on the slice implies `unsat` on
// the full query.
func (sc *Script) Slice(upto int, goalTerms []string, extra []string) map[int]bool {
	keep := map[int]bool{}
	cone := map[string]bool{}
	var work []string
	add := func(sym string) {
		if !cone[sym] {
			cone[sym] = true
			work = append(work, sym)
		}
	}
	for _, g := range goalTerms {
		for _, s := range termSymbols(g) {
			add(s)
		}
	}
	for _, e := range extra {
		for _, s := range termSymbols(e) {
			add(s)
		}
	}
	// index: symbol -> assert lines mentioning it in their fact part
	if sc.assertIdx == nil || sc.assertIdxLen != len(sc.lines) {
		sc.assertIdx = map[string][]int{}
		for i := range sc.lines {
			if sc.lines[i].kind != "assert" {
				continue
			}
			uses, _ := sc.symsOf(i)
			seen := map[string]bool{}
			for _, u := range uses {
				if !seen[u] {
					seen[u] = true
					sc.assertIdx[u] = append(sc.assertIdx[u], i)
				}
			}
		}
		sc.assertIdxLen = len(sc.lines)
	}
	for len(work) > 0 {
		s := work[len(work)-1]
		work = work[:len(work)-1]
		if i, ok := sc.defIndex[s]; ok && !keep[i] {
			keep[i] = true
			uses, _ := sc.symsOf(i)
			for _, u := range uses {
				add(u)
			}
		}
		for _, i := range sc.assertIdx[s] {
			if i >= upto || keep[i] {
				continue
			}
			keep[i] = true
			uses, guard := sc.symsOf(i)
			for _, u := range uses {
				add(u)
			}
			for _, u := range guard {
				add(u)
			}
		}
	}
	return keep
}

// DefineAlways is Define without the shortcut for atoms: the result always carries the prefix
// (object identities are classified by it).
func (sc *Script) DefineAlways(prefix, sort, term string) string {
	sc.n++
	q := sym(fmt.Sprintf("%s!%d", prefix, sc.n))
	sc.declared[q] = true
	sc.defIndex[q] = len(sc.lines)
	sc.defTerm[q] = term
	sc.lines = append(sc.lines, scriptLine{kind: "def", name: q, text: fmt.Sprintf("(define-fun %s () %s %s)", q, sort, term)})
	return q
}

func (sc *Script) Len() int { return len(sc.lines) }

// Text renders the script up to line n (exclusive), optionally sliced to the cone of influence of goal terms.
func (sc *Script) Text(upto int, goals ...string) string {
	var b strings.Builder
	b.WriteString("(set-option :produce-models true)\n(set-logic ALL)\n")
	for _, p := range sc.prelude {
		b.WriteString(p)
		b.WriteByte('\n')
	}
	if upto > len(sc.lines) {
		upto = len(sc.lines)
	}
	for _, l := range sc.lines[:upto] {
		b.WriteString(l.text)
		b.WriteByte('\n')
	}
	return b.String()
}

// ---- term constructors ----

func And(ts ...string) string {
	var out []string
	for _, t := range ts {
		if t == "true" || t == "" {
			continue
		}
		if t == "false" {
			return "false"
		}
		out = append(out, t)
	}
	switch len(out) {
	case 0:
		return "true"
	case 1:
		return out[0]
	}
	return "(and " + strings.Join(out, " ") + ")"
}

func Or(ts ...string) string {
	var out []string
	for _, t := range ts {
		if t == "false" || t == "" {
			continue
		}
		if t == "true" {
			return "true"
		}
		out = append(out, t)
	}
	switch len(out) {
	case 0:
		return "false"
	case 1:
		return out[0]
	}
	return "(or " + strings.Join(out, " ") + ")"
}

func Not(t string) string {
	switch t {
	case "true":
		return "false"
	case "false":
		return "true"
	}
	if strings.HasPrefix(t, "(not ") && strings.HasSuffix(t, ")") && balanced(t[5:len(t)-1]) {
		return t[5 : len(t)-1]
	}
	return "(not " + t + ")"
}

func balanced(t string) bool {
	d := 0
	inStr := false
	for i := 0; i < len(t); i++ {
		c := t[i]
		if inStr {
			if c == '"' {
				inStr = false
			}
			continue
		}
		switch c {
		case '"':
			inStr = true
		case '(':
			d++
		case ')':
			d--
			if d < 0 {
				return false
			}
			if d == 0 && i != len(t)-1 {
				return false
			}
		case ' ':
			if d == 0 {
				return false
			}
		}
	}
	return d == 0
}

func Implies(a, b string) string {
	if a == "true" {
		return b
	}
	if a == "false" || b == "true" {
		return "true"
	}
	if b == "false" {
		return Not(a)
	}
	return "(=> " + a + " " + b + ")"
}

func Ite(c, a, b string) string {
	if c == "true" {
		return a
	}
	if c == "false" {
		return b
	}
	if a == b {
		return a
	}
	return "(ite " + c + " " + a + " " + b + ")"
}

func Eq(a, b string) string {
	if a == b {
		return "true"
	}
	return "(= " + a + " " + b + ")"
}

func Select(a, i string) string   { return "(select " + a + " " + i + ")" }
func Store(a, i, v string) string { return "(store " + a + " " + i + " " + v + ")" }

func IntLit(n int64) string {
	if n < 0 {
		return fmt.Sprintf("(- %d)", -n)
	}
	return fmt.Sprintf("%d", n)
}

func BigLit(s string) string {
	if strings.HasPrefix(s, "-") {
		return "(- " + s[1:] + ")"
	}
	return s
}

// StrLit renders a Go string as an SMT-LIB 2.6 string literal.
func StrLit(s string) string {
	var b strings.Builder
	b.WriteByte('"')
	for i := 0; i < len(s); i++ {
		c := s[i]
		switch {
		case c == '"':
			b.WriteString("\"\"")
		case c >= 0x20 && c < 0x7f && c != '\\':
			b.WriteByte(c)
		default:
			fmt.Fprintf(&b, "\\u{%x}", c)
		}
	}
	b.WriteByte('"')
	return b.String()
}

func sortedKeys[V any](m map[string]V) []string {
	ks := make([]string, 0, len(m))
	for k := range m {
		ks = append(ks, k)
	}
	sort.Strings(ks)
	return ks
}

// termSymbols lists the symbols (not literals, not operators in head position of known
// theory functions) occurring in an SMT term.
func termSymbols(t string) []string {
	var out []string
	i := 0
	for i < len(t) {
		c := t[i]
		switch {
		case c == '(' || c == ')' || c == ' ' || c == '\n' || c == '\t':
			i++
		case c == '"':
			j := i + 1
			for j < len(t) {
				if t[j] == '"' {
					if j+1 < len(t) && t[j+1] == '"' {
						j += 2
						continue
					}
					break
				}
				j++
			}
			i = j + 1
		case c == '|':
			j := strings.IndexByte(t[i+1:], '|')
			if j < 0 {
				return out
			}
			out = append(out, t[i:i+j+2])
			i = i + j + 2
		default:
			j := i
			for j < len(t) && t[j] != '(' && t[j] != ')' && t[j] != ' ' && t[j] != '\n' && t[j] != '\t' {
				j++
			}
			tok := t[i:j]
			if !(tok[0] >= '0' && tok[0] <= '9') {
				out = append(out, tok)
			}
			i = j
		}
	}
	return out
}

// sexpChildren splits a term "(op a b ...)" into op and its top-level arguments; ok is false for atoms.
func sexpChildren(t string) (op string, args []string, ok bool) {
	t = strings.TrimSpace(t)
	if len(t) < 2 || t[0] != '(' || t[len(t)-1] != ')' {
		return "", nil, false
	}
	inner := t[1 : len(t)-1]
	var parts []string
	d := 0
	start := -1
	inStr, inQuote := false, false
	flush := func(end int) {
		if start >= 0 {
			parts = append(parts, inner[start:end])
			start = -1
		}
	}
	for i := 0; i < len(inner); i++ {
		c := inner[i]
		if inStr {
			if c == '"' {
				inStr = false
			}
			continue
		}
		if inQuote {
			if c == '|' {
				inQuote = false
			}
			continue
		}
		switch c {
		case '"':
			if start < 0 {
				start = i
			}
			inStr = true
		case '|':
			if start < 0 {
				start = i
			}
			inQuote = true
		case '(':
			if d == 0 && start < 0 {
				start = i
			}
			d++
		case ')':
			d--
			if d == 0 {
				flush(i + 1)
			}
		case ' ', '\n', '\t':
			if d == 0 {
				flush(i)
			}
		default:
			if start < 0 {
				start = i
			}
		}
	}
	flush(len(inner))
	if len(parts) == 0 {
		return "", nil, false
	}
	return parts[0], parts[1:], true
}

// splitGoal breaks a goal into independently provable parts: conjunctions, and conjunctions on the
// right of implications.
func splitGoal(t string) []string {
	op, args, ok := sexpChildren(t)
	if !ok {
		return []string{t}
	}
	switch {
	case op == "and":
		var out []string
		for _, a := range args {
			out = append(out, splitGoal(a)...)
		}
		return out
	case op == "=>" && len(args) == 2:
		rs := splitGoal(args[1])
		if len(rs) == 1 {
			return []string{t}
		}
		var out []string
		for _, r := range rs {
			out = append(out, "(=> "+args[0]+" "+r+")")
		}
		return out
	}
	return []string{t}
}
