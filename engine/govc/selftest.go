package govc

import (
	"encoding/json"
	"fmt"
	"os"
	"path/filepath"
	"sort"
	"strings"
	"sync"
)

// Mutant is a deliberately property-breaking edit of /repo, applied in memory (packages overlay).
type Mutant struct {
	Name     string   `json:"name"`
	Property string   `json:"property"`
	File     string   `json:"file"` // relative to /repo
	Old      string   `json:"old"`
	New      string   `json:"new"`
	Expect   []string `json:"expect"` // substrings of obligation names of which at least one must fail
	Note     string   `json:"note"`
}

func loadMutants(dir string) ([]Mutant, error) {
	files, _ := filepath.Glob(filepath.Join(dir, "*.json"))
	sort.Strings(files)
	var out []Mutant
	for _, f := range files {
		b, err := os.ReadFile(f)
		if err != nil {
			return nil, err
		}
		var ms []Mutant
		if err := json.Unmarshal(b, &ms); err != nil {
			return nil, fmt.Errorf("%s: %v", f, err)
		}
		out = append(out, ms...)
	}
	return out, nil
}

// failingObligations verifies every function carrying prop and returns the names of the
// obligations that are not discharged (no replay, no known-finding handling).
func failingObligations(e *Engine, prop string, timeoutS int) (failed []string, total int, err error) {
	var obls []*Obligation
	for k, c := range e.CS.ByKey {
		if !verifiesFor(c, prop) {
			continue
		}
		fn := e.FuncByKey(k)
		if fn == nil {
			failed = append(failed, shortKey(k)+"#target-missing")
			continue
		}
		x := e.NewExec(fn, c)
		os2, verr := x.VerifyRoot()
		if verr != nil {
			failed = append(failed, shortKey(k)+"#contract-does-not-apply: "+verr.Error())
			continue
		}
		for _, o := range os2 {
			if c.Trusted && (o.Kind == "ensures" || o.Kind == "frame") {
				continue
			}
			if o.Kind != "cover" && (len(o.Props) == 0 || hasProp(o.Props, prop)) {
				obls = append(obls, o)
			}
		}
	}
	ls, lerr := e.lemmaObligations(prop)
	if lerr != nil {
		return nil, 0, lerr
	}
	obls = append(obls, ls...)
	rs := solveAll(obls, timeoutS, false, 0)
	for i, o := range obls {
		if rs[i].Status != "unsat" {
			failed = append(failed, o.Name+" ["+rs[i].Status+"]")
		}
	}
	sort.Strings(failed)
	return failed, len(obls), nil
}

// cmdSelftest runs the must-fail corpus: every mutant must fail a named obligation.
func cmdSelftest(args []string) int {
	only := ""
	prop := ""
	for i := 0; i < len(args); i++ {
		switch args[i] {
		case "--only":
			only = args[i+1]
			i++
		case "--property":
			prop = args[i+1]
			i++
		}
	}
	ms, err := loadMutants(filepath.Join(VerifDir, "selftest", "mutants"))
	if err != nil {
		fmt.Fprintln(os.Stderr, err)
		return 2
	}
	var sel []Mutant
	for _, m := range ms {
		if only != "" && !strings.Contains(m.Name, only) {
			continue
		}
		if prop != "" && m.Property != prop {
			continue
		}
		sel = append(sel, m)
	}
	type result struct {
		m      Mutant
		ok     bool
		detail string
	}
	results := make([]result, len(sel))
	sem := make(chan struct{}, 4)
	var wg sync.WaitGroup
	for i, m := range sel {
		wg.Add(1)
		sem <- struct{}{}
		go func(i int, m Mutant) {
			defer wg.Done()
			defer func() { <-sem }()
			results[i] = result{m: m}
			path := filepath.Join(RepoDir, m.File)
			src, err := os.ReadFile(path)
			if err != nil {
				results[i].detail = err.Error()
				return
			}
			if strings.Count(string(src), m.Old) != 1 {
				results[i].detail = fmt.Sprintf("mutation site not found exactly once (%d occurrences): the corpus is out of date", strings.Count(string(src), m.Old))
				return
			}
			mut := strings.Replace(string(src), m.Old, m.New, 1)
			e, err := Load(RepoDir, map[string][]byte{path: []byte(mut)})
			if err != nil {
				results[i].detail = "mutant does not load: " + err.Error()
				return
			}
			if err := e.LoadContracts(VerifDir + "/contracts/lib"); err != nil {
				results[i].detail = err.Error()
				return
			}
			failed, total, err := failingObligations(e, m.Property, 20)
			if err != nil {
				results[i].detail = err.Error()
				return
			}
			for _, ent := range loadBounded() {
				if hasProp(ent.Props, m.Property) {
					br := runBoundedWith(ent, "quick", map[string][]byte{path: []byte(mut)})
					if br.Status != "ok" {
						failed = append(failed, "bounded."+ent.ID+" ["+br.Status+": "+truncate(br.Detail, 160)+"]")
					}
				}
			}
			hit := false
			for _, f := range failed {
				for _, want := range m.Expect {
					if strings.Contains(f, want) {
						hit = true
					}
				}
			}
			results[i].ok = hit
			results[i].detail = fmt.Sprintf("%d obligations, %d failed: %s", total, len(failed), strings.Join(failed, "; "))
		}(i, m)
	}
	wg.Wait()
	bad := 0
	for _, r := range results {
		mark := "caught"
		if !r.ok {
			mark = "MISSED"
			bad++
		}
		fmt.Printf("%s %-5s %-45s %s\n", mark, r.m.Property, r.m.Name, truncate(r.detail, 600))
	}
	fmt.Printf("selftest: %d mutants, %d missed\n", len(results), bad)
	if bad > 0 {
		return 1
	}
	return 0
}
