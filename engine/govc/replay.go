package govc

import (
	"bytes"
	"context"
	"encoding/json"
	"fmt"
	"os"
	"os/exec"
	"path/filepath"
	"regexp"
	"strings"
	"time"
)

// A replay harness is an in-package Go test template under /verif/replay/harness. Tokens of the
// form {{name}} are replaced by the model value of the probe `name` (Go literal syntax); the test
// runs the real code on those inputs and prints REPLAY-VIOLATED when the violated clause fails.
type replayEntry struct {
	Match    string            `json:"match"`   // regexp on the obligation name without @site
	Harness  string            `json:"harness"` // file under /verif/replay/harness
	Pkg      string            `json:"pkg"`     // package directory relative to /repo
	Defaults map[string]string `json:"defaults"`
	Repeat   int               `json:"repeat"`
}

func loadReplayRegistry() []replayEntry {
	b, err := os.ReadFile(filepath.Join(VerifDir, "replay", "registry.json"))
	if err != nil {
		return nil
	}
	var out []replayEntry
	json.Unmarshal(b, &out)
	return out
}

var tokenRe = regexp.MustCompile(`\{\{(\w+)\}\}`)

// smtToGo converts an SMT-LIB model value to a Go literal.
func smtToGo(v string) string {
	v = strings.TrimSpace(v)
	if strings.HasPrefix(v, "\"") && strings.HasSuffix(v, "\"") && len(v) >= 2 {
		s := v[1 : len(v)-1]
		s = strings.ReplaceAll(s, "\"\"", "\"")
		// \u{..} escapes
		re := regexp.MustCompile(`\\u\{([0-9a-fA-F]+)\}`)
		s = re.ReplaceAllStringFunc(s, func(m string) string {
			var n int
			fmt.Sscanf(m[3:len(m)-1], "%x", &n)
			return string(rune(n))
		})
		return fmt.Sprintf("%q", s)
	}
	return v
}

func fillTemplate(tmpl string, model map[string]string, defaults map[string]string) (string, []string) {
	var missing []string
	out := tokenRe.ReplaceAllStringFunc(tmpl, func(m string) string {
		name := m[2 : len(m)-2]
		if v, ok := model[name]; ok {
			return smtToGo(v)
		}
		if d, ok := defaults[name]; ok {
			return d
		}
		missing = append(missing, name)
		return "0"
	})
	return out, missing
}

// RunHarness runs a harness source as an in-package test of pkg through `go test -overlay`.
func RunHarness(src, pkg string, timeout time.Duration) (string, error) {
	return RunHarnessWith(src, pkg, timeout, nil)
}

// RunHarnessWith additionally replaces repository files by the given contents (must-fail mutants).
func RunHarnessWith(src, pkg string, timeout time.Duration, extra map[string][]byte) (string, error) {
	dir, err := os.MkdirTemp("", "govc-replay-")
	if err != nil {
		return "", err
	}
	defer os.RemoveAll(dir)
	testFile := filepath.Join(dir, "zz_verif_replay_test.go")
	if err := os.WriteFile(testFile, []byte(src), 0o644); err != nil {
		return "", err
	}
	target := filepath.Join(RepoDir, pkg, "zz_verif_replay_test.go")
	repl := map[string]string{target: testFile}
	n := 0
	for path, content := range extra {
		n++
		f := filepath.Join(dir, fmt.Sprintf("mutant%d.go", n))
		if err := os.WriteFile(f, content, 0o644); err != nil {
			return "", err
		}
		repl[path] = f
	}
	ov, _ := json.Marshal(map[string]interface{}{"Replace": repl})
	ovFile := filepath.Join(dir, "overlay.json")
	os.WriteFile(ovFile, ov, 0o644)
	ctx, cancel := context.WithTimeout(context.Background(), timeout)
	defer cancel()
	cmd := exec.CommandContext(ctx, "go", "test", "-overlay", ovFile, "-vet=off", "-count=1", "-timeout", "2400s", "-run", "^TestVerifReplay$", "-v", "./"+pkg)
	cmd.Dir = RepoDir
	cmd.Env = append(os.Environ(), "GOFLAGS=-mod=mod", "GOPROXY=off", "GOSUMDB=off", "GOTOOLCHAIN=local")
	var out bytes.Buffer
	cmd.Stdout = &out
	cmd.Stderr = &out
	err = cmd.Run()
	return out.String(), err
}

// tryReplay replays the solver's counterexample for a failed obligation on the real code.
func tryReplay(e *Engine, prop string, o *Obligation, r SolveResult) (bool, interface{}) {
	if os.Getenv("GOVC_NO_REPLAY") != "" {
		return false, "replay disabled"
	}
	name := stripSite(o.Name)
	for _, ent := range loadReplayRegistry() {
		re, err := regexp.Compile(ent.Match)
		if err != nil || !re.MatchString(name) {
			continue
		}
		tmpl, err := os.ReadFile(filepath.Join(VerifDir, "replay", "harness", ent.Harness))
		if err != nil {
			return false, "harness missing: " + ent.Harness
		}
		if r.Status != "sat" && !r.Relaxed && len(ent.Defaults) == 0 {
			return false, "no model from the solver (" + r.Status + ")"
		}
		src, missing := fillTemplate(string(tmpl), r.Model, ent.Defaults)
		out, runErr := RunHarness(src, ent.Pkg, 15*time.Minute)
		reproduced := strings.Contains(out, "REPLAY-VIOLATED")
		res := map[string]interface{}{"harness": ent.Harness, "package": ent.Pkg, "inputs": r.Model, "missing_probes": missing,
			"output": truncate(tailLines(out, 40), 6000), "reproduced": reproduced}
		if runErr != nil && !reproduced {
			res["error"] = runErr.Error()
		}
		return reproduced, res
	}
	return false, "no replay harness registered for this obligation"
}

func tailLines(s string, n int) string {
	ls := strings.Split(strings.TrimRight(s, "\n"), "\n")
	if len(ls) > n {
		ls = ls[len(ls)-n:]
	}
	return strings.Join(ls, "\n")
}

// cmdReplay re-runs the replay harness recorded in a replay file.
func cmdReplay(args []string) int {
	if len(args) < 1 {
		fmt.Fprintln(os.Stderr, "usage: govc replay <replay-file>")
		return 2
	}
	path := args[0]
	if !filepath.IsAbs(path) {
		path = filepath.Join(VerifDir, path)
	}
	b, err := os.ReadFile(path)
	if err != nil {
		fmt.Fprintln(os.Stderr, err)
		return 2
	}
	var rec struct {
		Obligation string            `json:"obligation"`
		Model      map[string]string `json:"model"`
		Status     string            `json:"status"`
		Clause     string            `json:"clause"`
	}
	if err := json.Unmarshal(b, &rec); err != nil {
		fmt.Fprintln(os.Stderr, err)
		return 2
	}
	fmt.Printf("obligation: %s\nclause: %s\nsolver status: %s\ninputs: %v\n", rec.Obligation, rec.Clause, rec.Status, rec.Model)
	o := &Obligation{Name: rec.Obligation}
	st := rec.Status
	if len(rec.Model) > 0 {
		st = "sat"
	}
	reproduced, out := tryReplay(nil, "", o, SolveResult{Status: st, Model: rec.Model})
	js, _ := json.MarshalIndent(out, "", " ")
	fmt.Println(string(js))
	if reproduced {
		fmt.Println("REPRODUCED on the real code")
		return 1
	}
	fmt.Println("not reproduced (no failing input found)")
	return 0
}
