package govc

import (
	"go/token"
	"fmt"
	"go/constant"
	"go/types"
	"strings"

	"golang.org/x/tools/go/ssa"
)

// Env is the environment a contract expression is evaluated in.
type Env struct {
	x             *Exec
	vars          map[string]Val
	ghostVars     map[string]string // variables holding ghost arrays: name -> SMT sort
	st, old       *State
	reach         string
	imports       map[string]string
	pkgPath       string
	frame         *frame
	head          *ssa.BasicBlock
	localOverride map[*ssa.Phi]Val
	retBlock      *ssa.BasicBlock // postcondition at this return site: locals must be defined on every path to it
	allocPre      string          // for fresh(): allocation counter before the call
	probes        []Probe
	depth         int
	outOfScope    *bool // set when a local is referenced at a point its definition does not dominate (shared by clones)
}

// SVal is the result of evaluating a contract expression.
type SVal struct {
	Val
	place     *placeT // lvalue not yet loaded
	ghostSort string  // ghost array value: L[0] has this SMT sort
	pkg       string  // package path (qualified identifier prefix)
	untyped   bool
}

type placeT struct {
	c   cell
	typ types.Type
}

var tBool = types.Typ[types.Bool]
var tInt = types.Typ[types.Int]
var tString = types.Typ[types.String]

func boolV(t string) SVal { return SVal{Val: Val{Typ: tBool, L: []string{t}}} }
func intV(t string) SVal  { return SVal{Val: Val{Typ: tInt, L: []string{t}}, untyped: true} }

func (env *Env) clone() *Env {
	n := *env
	n.vars = make(map[string]Val, len(env.vars)+2)
	for k, v := range env.vars {
		n.vars[k] = v
	}
	return &n
}

func (env *Env) evalBool(e Expr) (string, error) {
	v, err := env.eval(e)
	if err != nil {
		return "", err
	}
	v, err = env.rv(v)
	if err != nil {
		return "", err
	}
	if len(v.L) != 1 || v.Typ == nil || !isBoolT(v.Typ) {
		return "", fmt.Errorf("expression is not boolean")
	}
	return v.L[0], nil
}

// rv loads a place.
func (env *Env) rv(v SVal) (SVal, error) {
	if v.place == nil {
		return v, nil
	}
	p := v.place
	ls := env.x.eng.layout(p.typ)
	out := Val{Typ: p.typ, L: make([]string, len(ls))}
	for i, l := range ls {
		out.L[i] = env.x.leafRead(env.st, p.c, l)
	}
	return SVal{Val: out}, nil
}

func (env *Env) eval(e Expr) (SVal, error) {
	x := env.x
	switch e := e.(type) {
	case *EInt:
		return intV(e.V), nil
	case *EStr:
		return SVal{Val: Val{Typ: tString, L: []string{StrLit(e.V)}}, untyped: true}, nil
	case *EBool:
		if e.V {
			return boolV("true"), nil
		}
		return boolV("false"), nil
	case *ENil:
		return SVal{Val: Val{Typ: types.Typ[types.UntypedNil], L: []string{"0"}}, untyped: true}, nil
	case *EIdent:
		return env.ident(e.Name)
	case *EOld:
		if env.old == nil {
			return SVal{}, fmt.Errorf("old() not available here")
		}
		n := *env
		n.st = env.old
		v, err := n.eval(e.X)
		if err != nil {
			return v, err
		}
		return n.rv(v)
	case *ESel:
		xv, err := env.eval(e.X)
		if err != nil {
			return SVal{}, err
		}
		return env.sel(xv, e.Name)
	case *EIndex:
		xv, err := env.eval(e.X)
		if err != nil {
			return SVal{}, err
		}
		iv, err := env.evalRV(e.I)
		if err != nil {
			return SVal{}, err
		}
		return env.index(xv, iv)
	case *ESlice:
		xv, err := env.evalRV(e.X)
		if err != nil {
			return SVal{}, err
		}
		lo := "0"
		if e.Lo != nil {
			l, err := env.evalRV(e.Lo)
			if err != nil {
				return SVal{}, err
			}
			lo = l.L[0]
		}
		if xv.Typ != nil && isStringT(xv.Typ) {
			hi := "(str.len " + xv.L[0] + ")"
			if e.Hi != nil {
				h, err := env.evalRV(e.Hi)
				if err != nil {
					return SVal{}, err
				}
				hi = h.L[0]
			}
			return SVal{Val: Val{Typ: xv.Typ, L: []string{"(str.substr " + xv.L[0] + " " + lo + " (- " + hi + " " + lo + "))"}}}, nil
		}
		if xv.Typ != nil && isSlice(xv.Typ) {
			hi := xv.L[2]
			if e.Hi != nil {
				h, err := env.evalRV(e.Hi)
				if err != nil {
					return SVal{}, err
				}
				hi = h.L[0]
			}
			return SVal{Val: Val{Typ: xv.Typ, L: []string{xv.L[0], add(xv.L[1], lo), "(- " + hi + " " + lo + ")"}}}, nil
		}
		return SVal{}, fmt.Errorf("cannot slice this expression")
	case *EUn:
		v, err := env.evalRV(e.X)
		if err != nil {
			return SVal{}, err
		}
		if len(v.L) != 1 {
			return SVal{}, fmt.Errorf("unary %s on composite", e.Op)
		}
		if e.Op == "!" {
			return boolV(Not(v.L[0])), nil
		}
		return SVal{Val: Val{Typ: v.Typ, L: []string{"(- " + v.L[0] + ")"}}, untyped: v.untyped}, nil
	case *EBin:
		return env.binary(e)
	case *EQuant:
		if e.In != nil {
			// The bound variable of the SMT quantifier is the absolute index into the backing
			// array, so that the element read is the trigger: an element read in the code
			// (whatever arithmetic forms its index) instantiates the quantifier.
			sv, err := env.evalRV(e.In)
			if err != nil {
				return SVal{}, err
			}
			st, ok := sv.Typ.Underlying().(*types.Slice)
			if sv.Typ == nil || !ok {
				return SVal{}, fmt.Errorf("forall x in S: S must be a slice")
			}
			x.uniq++
			j := sym(fmt.Sprintf("q!%s!%d", e.Vars[0].Name, x.uniq))
			n := env.clone()
			c := cell{root: st.Elem(), elem: true, obj: sv.L[0], idx: j}
			ev, err := n.rv(SVal{place: &placeT{c: c, typ: st.Elem()}})
			if err != nil {
				return SVal{}, err
			}
			n.vars[e.Vars[0].Name] = ev.Val
			body, err := n.evalBool(e.Body)
			if err != nil {
				return SVal{}, err
			}
			rng := And("(<= "+sv.L[1]+" "+j+")", "(< "+j+" "+add(sv.L[1], sv.L[2])+")")
			pat := ""
			if len(ev.L) > 0 && strings.Contains(ev.L[0], j) {
				pat = ev.L[0]
			}
			if e.Forall {
				if pat != "" {
					return boolV("(forall ((" + j + " Int)) (! " + Implies(rng, body) + " :pattern (" + pat + ")))"), nil
				}
				return boolV("(forall ((" + j + " Int)) " + Implies(rng, body) + ")"), nil
			}
			return boolV("(exists ((" + j + " Int)) " + And(rng, body) + ")"), nil
		}
		n := env.clone()
		var decls []string
		for _, b := range e.Vars {
			t, err := x.eng.lookupType(b.Type, env.imports, env.pkgPath)
			if err != nil {
				return SVal{}, err
			}
			ls := x.eng.layout(t)
			if len(ls) != 1 {
				return SVal{}, fmt.Errorf("quantified variable %s must have a scalar type", b.Name)
			}
			x.uniq++
			s := sym(fmt.Sprintf("q!%s!%d", b.Name, x.uniq))
			decls = append(decls, "("+s+" "+ls[0].Sort+")")
			n.vars[b.Name] = Val{Typ: t, L: []string{s}}
		}
		body, err := n.evalBool(e.Body)
		if err != nil {
			return SVal{}, err
		}
		q := "exists"
		if e.Forall {
			q = "forall"
		}
		return boolV("(" + q + " (" + strings.Join(decls, " ") + ") " + body + ")"), nil
	case *ECall:
		return env.callSpec(e)
	}
	return SVal{}, fmt.Errorf("cannot evaluate %T", e)
}

func (env *Env) evalRV(e Expr) (SVal, error) {
	v, err := env.eval(e)
	if err != nil {
		return v, err
	}
	return env.rv(v)
}

func (env *Env) ident(name string) (SVal, error) {
	x := env.x
	if v, ok := env.vars[name]; ok {
		if gs, isG := env.ghostVars[name]; isG {
			return SVal{Val: v, ghostSort: gs}, nil
		}
		return SVal{Val: v}, nil
	}
	if g, ok := x.eng.CS.Ghosts[name]; ok {
		sort, err := ghostSort(g.Type)
		if err != nil {
			return SVal{}, err
		}
		t := env.st.Get("G:"+name, sort)
		switch sort {
		case "Int":
			return SVal{Val: Val{Typ: tInt, L: []string{t}}}, nil
		case "Bool":
			return SVal{Val: Val{Typ: tBool, L: []string{t}}}, nil
		case "String":
			return SVal{Val: Val{Typ: tString, L: []string{t}}}, nil
		}
		return SVal{Val: Val{L: []string{t}}, ghostSort: sort}, nil
	}
	// locals (loop invariants)
	if env.frame != nil {
		if v, ok := env.local(name); ok {
			return SVal{Val: v}, nil
		}
	}
	if p, ok := env.imports[name]; ok {
		return SVal{pkg: p}, nil
	}
	// package-level constant of the current package
	if p := x.eng.TypPkgs[env.pkgPath]; p != nil {
		if o := p.Scope().Lookup(name); o != nil {
			if v, ok := env.pkgObject(o); ok {
				return v, nil
			}
		}
	}
	return SVal{}, fmt.Errorf("unknown identifier %q", name)
}

func (env *Env) pkgObject(o types.Object) (SVal, bool) {
	x := env.x
	switch o := o.(type) {
	case *types.Const:
		switch o.Val().Kind() {
		case constant.Int:
			return SVal{Val: Val{Typ: o.Type(), L: []string{BigLit(o.Val().ExactString())}}}, true
		case constant.String:
			return SVal{Val: Val{Typ: o.Type(), L: []string{StrLit(constant.StringVal(o.Val()))}}}, true
		case constant.Bool:
			if constant.BoolVal(o.Val()) {
				return boolV("true"), true
			}
			return boolV("false"), true
		}
	case *types.Var:
		// package-level variable: a global cell
		if sp := x.eng.SSAPkgs[o.Pkg().Path()]; sp != nil {
			if g, ok := sp.Members[o.Name()].(*ssa.Global); ok {
				id := IntLit(int64(x.eng.globID(g)))
				return SVal{place: &placeT{c: cell{root: o.Type(), obj: id}, typ: o.Type()}}, true
			}
		}
	}
	return SVal{}, false
}

// local resolves a source-level local variable name at a loop head.
func (env *Env) local(name string) (Val, bool) {
	f := env.frame
	if env.head != nil {
		for _, in := range env.head.Instrs {
			phi, ok := in.(*ssa.Phi)
			if !ok {
				break
			}
			if phi.Comment == name {
				if v, ok := env.localOverride[phi]; ok {
					return v, true
				}
				return f.vals[phi], true
			}
		}
	}
	// a variable not modified in the loop: find it through DebugRefs
	var found ssa.Value
	for _, b := range f.fn.Blocks {
		for _, in := range b.Instrs {
			if d, ok := in.(*ssa.DebugRef); ok && !d.IsAddr {
				if o := d.Object(); o != nil && o.Name() == name {
					if _, isPhi := d.X.(*ssa.Phi); isPhi && env.head != nil && d.X.(*ssa.Phi).Block() == env.head {
						continue
					}
					if v, ok := f.vals[d.X]; ok {
						if found != nil && found != d.X {
							// ambiguous: prefer the definition that dominates the head
							if env.head != nil && d.X.(ssa.Instruction) != nil {
								if vi, ok := d.X.(ssa.Instruction); ok && vi.Block() != nil && vi.Block().Dominates(env.head) {
									found = d.X
								}
							}
							continue
						}
						_ = v
						found = d.X
					} else if _, isConst := d.X.(*ssa.Const); isConst && found == nil {
						found = d.X
					}
				}
			}
		}
	}
	if found != nil {
		if c, ok := found.(*ssa.Const); ok {
			return env.x.constVal(c), true
		}
		if env.retBlock != nil {
			if vi, ok := found.(ssa.Instruction); ok && vi.Block() != nil && !vi.Block().Dominates(env.retBlock) {
				if env.outOfScope != nil {
					*env.outOfScope = true
				}
				return Val{}, false
			}
		}
		return f.vals[found], true
	}
	// address-taken locals (Alloc with a Comment = variable name)
	for _, b := range f.fn.Blocks {
		for _, in := range b.Instrs {
			if a, ok := in.(*ssa.Alloc); ok && a.Comment == name {
				if pv, ok := f.vals[a]; ok {
					c, et, ok := env.x.cellOf(pv)
					if ok {
						ls := env.x.eng.layout(et)
						out := Val{Typ: et, L: make([]string, len(ls))}
						for i, l := range ls {
							out.L[i] = env.x.leafRead(env.st, c, l)
						}
						return out, true
					}
				}
			}
		}
	}
	return Val{}, false
}

func ghostSort(t string) (string, error) {
	base := func(s string) (string, bool) {
		switch s {
		case "int":
			return "Int", true
		case "bool":
			return "Bool", true
		case "string":
			return "String", true
		}
		return "", false
	}
	if s, ok := base(t); ok {
		return s, nil
	}
	if strings.HasPrefix(t, "map[") {
		i := strings.Index(t, "]")
		k, ok1 := base(t[4:i])
		v, ok2 := base(t[i+1:])
		if ok1 && ok2 {
			return "(Array " + k + " " + v + ")", nil
		}
	}
	return "", fmt.Errorf("unsupported ghost type %q", t)
}

// sel evaluates x.name.
func (env *Env) sel(xv SVal, name string) (SVal, error) {
	x := env.x
	if xv.pkg != "" {
		p := x.eng.TypPkgs[xv.pkg]
		if p == nil {
			return SVal{}, fmt.Errorf("package %s not loaded", xv.pkg)
		}
		o := p.Scope().Lookup(name)
		if o == nil {
			return SVal{}, fmt.Errorf("%s.%s not found", xv.pkg, name)
		}
		if v, ok := env.pkgObject(o); ok {
			return v, nil
		}
		return SVal{}, fmt.Errorf("%s.%s is not a constant or variable", xv.pkg, name)
	}
	// determine the struct type and whether we have a place
	var typ types.Type
	if xv.place != nil {
		typ = xv.place.typ
	} else {
		typ = xv.Typ
	}
	if typ == nil {
		return SVal{}, fmt.Errorf("cannot select .%s", name)
	}
	// auto-dereference pointers
	if _, isPtr := typ.Underlying().(*types.Pointer); isPtr {
		pv, err := env.rv(xv)
		if err != nil {
			return SVal{}, err
		}
		c, et, ok := x.cellOf(pv.Val)
		if !ok {
			return SVal{}, fmt.Errorf("cannot dereference for .%s", name)
		}
		xv = SVal{place: &placeT{c: c, typ: et}}
		typ = et
	}
	stt, ok := typ.Underlying().(*types.Struct)
	if !ok {
		return SVal{}, fmt.Errorf("selecting .%s from non-struct %s", name, x.eng.typeKey(typ))
	}
	// ghost field?
	obj, index, _ := types.LookupFieldOrMethod(typ, true, nil, name)
	if obj == nil {
		// unexported fields need the package
		if named, ok := typ.(*types.Named); ok && named.Obj().Pkg() != nil {
			obj, index, _ = types.LookupFieldOrMethod(typ, true, named.Obj().Pkg(), name)
		}
	}
	fv, isField := obj.(*types.Var)
	if obj == nil || !isField {
		if gf, ok := x.eng.CS.Ghosts[x.ghostFieldKey(typ, name)]; ok && xv.place != nil && xv.place.c.prefix == "" && !xv.place.c.elem {
			sort, err := ghostSort(gf.Type)
			if err != nil {
				return SVal{}, err
			}
			arr := env.st.Get("G:"+gf.Name, "(Array Int "+sort+")")
			t := Select(arr, xv.place.c.obj)
			switch sort {
			case "Int":
				return SVal{Val: Val{Typ: tInt, L: []string{t}}}, nil
			case "Bool":
				return SVal{Val: Val{Typ: tBool, L: []string{t}}}, nil
			case "String":
				return SVal{Val: Val{Typ: tString, L: []string{t}}}, nil
			}
			return SVal{Val: Val{L: []string{t}}, ghostSort: sort}, nil
		}
		return SVal{}, fmt.Errorf("type %s has no field %s", x.eng.typeKey(typ), name)
	}
	_ = stt
	// build the leaf path through embedded fields
	path := ""
	cur := typ
	for _, i := range index {
		cs, ok := cur.Underlying().(*types.Struct)
		if !ok {
			if pt, isP := cur.Underlying().(*types.Pointer); isP {
				// embedded pointer: load and continue
				_ = pt
				return SVal{}, fmt.Errorf("embedded pointer fields are not supported in contracts (.%s)", name)
			}
			return SVal{}, fmt.Errorf("bad field path for .%s", name)
		}
		path = joinPath(path, cs.Field(i).Name())
		cur = cs.Field(i).Type()
	}
	if xv.place != nil {
		c := xv.place.c
		c.prefix = joinPath(c.prefix, path)
		return SVal{place: &placeT{c: c, typ: fv.Type()}}, nil
	}
	off, ls := x.eng.subLayout(typ, path)
	if off < 0 || off+len(ls) > len(xv.L) {
		if len(x.eng.layout(fv.Type())) == 0 {
			return SVal{Val: Val{Typ: fv.Type()}}, nil
		}
		return SVal{}, fmt.Errorf("cannot extract field %s", name)
	}
	return SVal{Val: Val{Typ: fv.Type(), L: append([]string(nil), xv.L[off:off+len(ls)]...)}}, nil
}

func (x *Exec) ghostFieldKey(t types.Type, name string) string {
	return x.eng.typeKey(t) + "." + name
}

func (env *Env) index(xv SVal, iv SVal) (SVal, error) {
	x := env.x
	if xv.ghostSort != "" {
		// (Array K V)
		inner := strings.TrimSuffix(strings.TrimPrefix(xv.ghostSort, "(Array "), ")")
		parts := strings.SplitN(inner, " ", 2)
		t := Select(xv.L[0], iv.L[0])
		switch parts[1] {
		case "Int":
			return SVal{Val: Val{Typ: tInt, L: []string{t}}}, nil
		case "Bool":
			return boolV(t), nil
		case "String":
			return SVal{Val: Val{Typ: tString, L: []string{t}}}, nil
		}
		return SVal{Val: Val{L: []string{t}}, ghostSort: parts[1]}, nil
	}
	v, err := env.rv(xv)
	if err != nil {
		return SVal{}, err
	}
	if v.Typ == nil {
		return SVal{}, fmt.Errorf("cannot index")
	}
	switch t := v.Typ.Underlying().(type) {
	case *types.Map:
		if _, ok := keySort(t.Key()); !ok {
			return SVal{}, fmt.Errorf("unsupported map key type")
		}
		return SVal{Val: x.mapGet(env.st, t, v.L[0], iv.L[0])}, nil
	case *types.Slice:
		c := cell{root: t.Elem(), elem: true, obj: v.L[0], idx: add(v.L[1], iv.L[0])}
		return SVal{place: &placeT{c: c, typ: t.Elem()}}, nil
	case *types.Basic:
		if isStringT(v.Typ) {
			return SVal{Val: Val{Typ: types.Typ[types.Uint8], L: []string{"(str.to_code (str.at " + v.L[0] + " " + iv.L[0] + "))"}}}, nil
		}
	}
	return SVal{}, fmt.Errorf("cannot index %s", x.eng.typeKey(v.Typ))
}

func (env *Env) binary(e *EBin) (SVal, error) {
	x := env.x
	switch e.Op {
	case "&&", "||", "==>", "<==>":
		a, err := env.evalBool(e.X)
		if err != nil {
			return SVal{}, err
		}
		b, err := env.evalBool(e.Y)
		if err != nil {
			return SVal{}, err
		}
		switch e.Op {
		case "&&":
			return boolV(And(a, b)), nil
		case "||":
			return boolV(Or(a, b)), nil
		case "==>":
			return boolV(Implies(a, b)), nil
		default:
			return boolV(Eq(a, b)), nil
		}
	case "in", "!in":
		k, err := env.evalRV(e.X)
		if err != nil {
			return SVal{}, err
		}
		m, err := env.eval(e.Y)
		if err != nil {
			return SVal{}, err
		}
		var t string
		if m.ghostSort != "" {
			t = Select(m.L[0], k.L[0])
		} else {
			mv, err := env.rv(m)
			if err != nil {
				return SVal{}, err
			}
			mt, ok := mv.Typ.Underlying().(*types.Map)
			if !ok {
				return SVal{}, fmt.Errorf("'in' needs a map")
			}
			if _, ok := keySort(mt.Key()); !ok {
				return SVal{}, fmt.Errorf("unsupported map key type")
			}
			t = x.mapDom(env.st, mt, mv.L[0], k.L[0])
		}
		if e.Op == "!in" {
			t = Not(t)
		}
		return boolV(t), nil
	}
	a, err := env.evalRV(e.X)
	if err != nil {
		return SVal{}, err
	}
	b, err := env.evalRV(e.Y)
	if err != nil {
		return SVal{}, err
	}
	switch e.Op {
	case "==", "!=":
		var t string
		if a.ghostSort != "" || b.ghostSort != "" {
			t = Eq(a.L[0], b.L[0])
		} else {
			ta, tb := a.Typ, b.Typ
			// untyped nil against typed
			if a.untyped && !b.untyped && a.Typ == types.Typ[types.UntypedNil] {
				a.Val = x.eng.zeroVal(tb)
				ta = tb
			}
			if b.untyped && !a.untyped && b.Typ == types.Typ[types.UntypedNil] {
				b.Val = x.eng.zeroVal(ta)
				tb = ta
			}
			if len(a.L) != len(b.L) {
				return SVal{}, fmt.Errorf("comparison of values of different shapes (%s vs %s)", x.eng.typeKey(ta), x.eng.typeKey(tb))
			}
			if len(a.L) == 1 && !sameSortTerm(x, ta, tb) {
				return SVal{}, fmt.Errorf("comparison of %s with %s", x.eng.typeKey(ta), x.eng.typeKey(tb))
			}
			t = x.eqVals(a.Val, b.Val, ta, tb)
		}
		if e.Op == "!=" {
			t = Not(t)
		}
		return boolV(t), nil
	}
	if len(a.L) != 1 || len(b.L) != 1 {
		return SVal{}, fmt.Errorf("operator %s on composite values", e.Op)
	}
	l, r := a.L[0], b.L[0]
	if a.Typ != nil && isStringT(a.Typ) {
		switch e.Op {
		case "+":
			return SVal{Val: Val{Typ: a.Typ, L: []string{"(str.++ " + l + " " + r + ")"}}}, nil
		case "<":
			return boolV("(str.< " + l + " " + r + ")"), nil
		case "<=":
			return boolV("(str.<= " + l + " " + r + ")"), nil
		case ">":
			return boolV("(str.< " + r + " " + l + ")"), nil
		case ">=":
			return boolV("(str.<= " + r + " " + l + ")"), nil
		}
		return SVal{}, fmt.Errorf("operator %s on strings", e.Op)
	}
	rt := a.Typ
	if a.untyped {
		rt = b.Typ
	}
	switch e.Op {
	case "+", "-", "*":
		return SVal{Val: Val{Typ: rt, L: []string{"(" + e.Op + " " + l + " " + r + ")"}}, untyped: a.untyped && b.untyped}, nil
	case "/":
		return SVal{Val: Val{Typ: rt, L: []string{"(div " + l + " " + r + ")"}}}, nil
	case "%":
		return SVal{Val: Val{Typ: rt, L: []string{"(mod " + l + " " + r + ")"}}}, nil
	case "<", "<=", ">", ">=":
		return boolV("(" + e.Op + " " + l + " " + r + ")"), nil
	}
	return SVal{}, fmt.Errorf("unknown operator %s", e.Op)
}

func sameSortTerm(x *Exec, a, b types.Type) bool {
	if a == nil || b == nil {
		return true
	}
	la, lb := x.eng.layout(a), x.eng.layout(b)
	if len(la) != 1 || len(lb) != 1 {
		return true
	}
	return la[0].Sort == lb[0].Sort
}

func (env *Env) callSpec(e *ECall) (SVal, error) {
	x := env.x
	id, ok := e.Fn.(*EIdent)
	if !ok {
		return SVal{}, fmt.Errorf("only named spec functions can be called")
	}
	str1 := func(i int) (string, error) {
		if i >= len(e.Args) {
			return "", fmt.Errorf("%s: missing argument", id.Name)
		}
		v, err := env.evalRV(e.Args[i])
		if err != nil {
			return "", err
		}
		if len(v.L) != 1 {
			return "", fmt.Errorf("%s: scalar argument expected", id.Name)
		}
		return v.L[0], nil
	}
	switch id.Name {
	case "len":
		v, err := env.evalRV(e.Args[0])
		if err != nil {
			return SVal{}, err
		}
		switch {
		case v.Typ != nil && isStringT(v.Typ):
			return intV("(str.len " + v.L[0] + ")"), nil
		case v.Typ != nil && isSlice(v.Typ):
			return intV(v.L[2]), nil
		}
		if mt, ok := v.Typ.Underlying().(*types.Map); ok {
			return intV(x.mapLen(env.st, mt, v.L[0], env.reach)), nil
		}
		return SVal{}, fmt.Errorf("len of unsupported type")
	case "hasPrefix", "hasSuffix", "contains":
		a, err := str1(0)
		if err != nil {
			return SVal{}, err
		}
		b, err := str1(1)
		if err != nil {
			return SVal{}, err
		}
		switch id.Name {
		case "hasPrefix":
			return boolV("(str.prefixof " + b + " " + a + ")"), nil
		case "hasSuffix":
			return boolV("(str.suffixof " + b + " " + a + ")"), nil
		}
		return boolV("(str.contains " + a + " " + b + ")"), nil
	case "indexOf":
		a, err := str1(0)
		if err != nil {
			return SVal{}, err
		}
		b, err := str1(1)
		if err != nil {
			return SVal{}, err
		}
		from := "0"
		if len(e.Args) > 2 {
			from, err = str1(2)
			if err != nil {
				return SVal{}, err
			}
		}
		return intV("(str.indexof " + a + " " + b + " " + from + ")"), nil
	case "substr":
		a, err := str1(0)
		if err != nil {
			return SVal{}, err
		}
		i, err := str1(1)
		if err != nil {
			return SVal{}, err
		}
		n, err := str1(2)
		if err != nil {
			return SVal{}, err
		}
		return SVal{Val: Val{Typ: tString, L: []string{"(str.substr " + a + " " + i + " " + n + ")"}}}, nil
	case "at":
		a, err := str1(0)
		if err != nil {
			return SVal{}, err
		}
		i, err := str1(1)
		if err != nil {
			return SVal{}, err
		}
		return SVal{Val: Val{Typ: tString, L: []string{"(str.at " + a + " " + i + ")"}}}, nil
	case "ite":
		c, err := env.evalBool(e.Args[0])
		if err != nil {
			return SVal{}, err
		}
		a, err := env.evalRV(e.Args[1])
		if err != nil {
			return SVal{}, err
		}
		b, err := env.evalRV(e.Args[2])
		if err != nil {
			return SVal{}, err
		}
		if len(a.L) != len(b.L) {
			return SVal{}, fmt.Errorf("ite branches differ in shape")
		}
		out := Val{Typ: a.Typ, L: make([]string, len(a.L))}
		for i := range a.L {
			out.L[i] = Ite(c, a.L[i], b.L[i])
		}
		return SVal{Val: out, ghostSort: a.ghostSort}, nil
	case "fresh":
		v, err := env.evalRV(e.Args[0])
		if err != nil {
			return SVal{}, err
		}
		if env.allocPre == "" {
			return SVal{}, fmt.Errorf("fresh() is only meaningful in the postcondition of an assumed contract")
		}
		return boolV("(>= " + v.L[0] + " " + env.allocPre + ")"), nil
	case "mapSame":
		a, err := env.evalRV(e.Args[0])
		if err != nil {
			return SVal{}, err
		}
		b, err := env.evalRV(e.Args[1])
		if err != nil {
			return SVal{}, err
		}
		return env.mapSame(a, env.st, b, env.st)
	case "mapSameOld": // mapSameOld(m): contents of m now == contents of m in the old state
		a, err := env.evalRV(e.Args[0])
		if err != nil {
			return SVal{}, err
		}
		n := *env
		n.st = env.old
		b, err := n.evalRV(e.Args[0])
		if err != nil {
			return SVal{}, err
		}
		return env.mapSame(a, env.st, b, env.old)
	case "domOf", "valsOf":
		v, err := env.evalRV(e.Args[0])
		if err != nil {
			return SVal{}, err
		}
		mt, ok := v.Typ.Underlying().(*types.Map)
		if !ok {
			return SVal{}, fmt.Errorf("%s wants a map", id.Name)
		}
		ks, ok := keySort(mt.Key())
		if !ok {
			return SVal{}, fmt.Errorf("unsupported map key")
		}
		if id.Name == "domOf" {
			d := env.st.Get(x.mdName(mt), "(Array Int (Array "+ks+" Bool))")
			// a nil map has the empty domain
			return SVal{Val: Val{L: []string{Ite(Eq(v.L[0], "0"), "((as const (Array "+ks+" Bool)) false)", Select(d, v.L[0]))}}, ghostSort: "(Array " + ks + " Bool)"}, nil
		}
		ls := x.eng.layout(mt.Elem())
		if len(ls) != 1 {
			return SVal{}, fmt.Errorf("valsOf wants a map with scalar values")
		}
		a := env.st.Get(x.mvName(mt, ls[0].Path), "(Array Int (Array "+ks+" "+ls[0].Sort+"))")
		return SVal{Val: Val{L: []string{Select(a, v.L[0])}}, ghostSort: "(Array " + ks + " " + ls[0].Sort + ")"}, nil
	case "visited":
		// visited(N): the set of keys the N-th loop (a range over a map) has already handed out
		lit, ok := e.Args[0].(*EInt)
		if !ok || env.frame == nil {
			return SVal{}, fmt.Errorf("visited(N) is only meaningful in the invariants of the enclosing function")
		}
		var n int
		fmt.Sscanf(lit.V, "%d", &n)
		f := env.frame
		for hb, h := range f.heads {
			if h.ordinal != n {
				continue
			}
			for _, in := range hb.Instrs {
				if nx, ok := in.(*ssa.Next); ok {
					if r, ok := nx.Iter.(*ssa.Range); ok {
						if mt, ok := r.X.Type().Underlying().(*types.Map); ok {
							if ks, ok := keySort(mt.Key()); ok {
								sort := "(Array " + ks + " Bool)"
								t := env.st.Get("V:"+x.iterID(f, r), sort)
								return SVal{Val: Val{L: []string{t}}, ghostSort: sort}, nil
							}
						}
					}
				}
			}
		}
		return SVal{}, fmt.Errorf("loop %d is not a range over a map", n)
	case "asPtr":
		// asPtr(ref, "*T"): view an object reference (e.g. a ghost copy of a pointer) as a typed pointer
		v, err := env.evalRV(e.Args[0])
		if err != nil {
			return SVal{}, err
		}
		ts, ok := e.Args[1].(*EStr)
		if !ok || len(v.L) != 1 {
			return SVal{}, fmt.Errorf("asPtr(ref, \"*T\")")
		}
		t, err := x.eng.lookupType(ts.V, env.imports, env.pkgPath)
		if err != nil {
			return SVal{}, err
		}
		return SVal{Val: Val{Typ: t, L: []string{v.L[0]}}}, nil
	case "allocated":
		// the reference denotes an object that exists in the current state (or nil)
		v, err := env.evalRV(e.Args[0])
		if err != nil {
			return SVal{}, err
		}
		if len(v.L) < 1 {
			return SVal{}, fmt.Errorf("allocated() wants a reference")
		}
		r := v.L[0]
		if len(v.L) == 2 {
			r = v.L[1]
		}
		return boolV(And("(<= 0 "+r+")", "(< "+r+" "+env.st.Get(allocName, "Int")+")")), nil
	case "chr":
		a, err := str1(0)
		if err != nil {
			return SVal{}, err
		}
		return SVal{Val: Val{Typ: tString, L: []string{"(str.from_code " + a + ")"}}}, nil
	case "code":
		a, err := str1(0)
		if err != nil {
			return SVal{}, err
		}
		return intV("(str.to_code " + a + ")"), nil
	case "unboxString":
		v, err := env.evalRV(e.Args[0])
		if err != nil {
			return SVal{}, err
		}
		if len(v.L) != 2 {
			return SVal{}, fmt.Errorf("unboxString wants an interface value")
		}
		x.declBox()
		return SVal{Val: Val{Typ: tString, L: []string{"(unboxS " + v.L[1] + ")"}}}, nil
	case "arrOf":
		v, err := env.evalRV(e.Args[0])
		if err != nil {
			return SVal{}, err
		}
		if len(v.L) != 3 {
			return SVal{}, fmt.Errorf("arrOf wants a slice")
		}
		return intV(v.L[0]), nil
	case "offOf":
		v, err := env.evalRV(e.Args[0])
		if err != nil {
			return SVal{}, err
		}
		if len(v.L) != 3 {
			return SVal{}, fmt.Errorf("offOf wants a slice")
		}
		return intV(v.L[1]), nil
	case "typeTag":
		v, err := env.evalRV(e.Args[0])
		if err != nil {
			return SVal{}, err
		}
		if len(v.L) != 2 {
			return SVal{}, fmt.Errorf("typeTag wants an interface value")
		}
		return intV(v.L[0]), nil
	case "isType", "asType":
		v, err := env.evalRV(e.Args[0])
		if err != nil {
			return SVal{}, err
		}
		ts, ok := e.Args[1].(*EStr)
		if !ok || len(v.L) != 2 {
			return SVal{}, fmt.Errorf("%s(x, \"T\") wants an interface value and a type name", id.Name)
		}
		t, err := x.eng.lookupType(ts.V, env.imports, env.pkgPath)
		if err != nil {
			return SVal{}, err
		}
		if id.Name == "isType" {
			return boolV(Eq(v.L[0], IntLit(int64(x.eng.tagOf(t))))), nil
		}
		ls := x.eng.layout(t)
		if len(ls) == 1 && ls[0].Sort == "Int" {
			return SVal{Val: Val{Typ: t, L: []string{v.L[1]}}}, nil
		}
		return SVal{}, fmt.Errorf("asType supports pointer/integer dynamic types only")
	case "implements":
		v, err := env.evalRV(e.Args[0])
		if err != nil {
			return SVal{}, err
		}
		ts, ok := e.Args[1].(*EStr)
		if !ok || len(v.L) != 2 {
			return SVal{}, fmt.Errorf("implements(x, \"I\")")
		}
		t, err := x.eng.lookupType(ts.V, env.imports, env.pkgPath)
		if err != nil {
			return SVal{}, err
		}
		fn := sym("implements:" + x.eng.typeKey(t))
		if !x.specDone[fn] {
			x.specDone[fn] = true
			x.sc.prelude = append(x.sc.prelude, "(declare-fun "+fn+" (Int) Bool)", "(assert (not ("+fn+" 0)))")
		}
		return boolV("(" + fn + " " + v.L[0] + ")"), nil
	}
	sf, ok := x.eng.CS.Specs[id.Name]
	if !ok {
		return SVal{}, fmt.Errorf("unknown spec function %q", id.Name)
	}
	if len(e.Args) != len(sf.Params) {
		return SVal{}, fmt.Errorf("%s expects %d arguments", sf.Name, len(sf.Params))
	}
	var args []SVal
	for _, a := range e.Args {
		v, err := env.evalRV(a)
		if err != nil {
			return SVal{}, err
		}
		args = append(args, v)
	}
	if sf.Uninterp || (sf.Opaque && !x.revealed[sf.Name]) {
		return env.callUninterp(sf, args)
	}
	if env.depth > 20 {
		return SVal{}, fmt.Errorf("spec function %s: recursion too deep", sf.Name)
	}
	n := &Env{x: x, vars: map[string]Val{}, st: env.st, old: env.old, reach: env.reach, imports: sf.Imports, pkgPath: sf.PkgPath, allocPre: env.allocPre, depth: env.depth + 1}
	for i, p := range sf.Params {
		n.vars[p.Name] = args[i].Val
		if args[i].ghostSort != "" {
			if n.ghostVars == nil {
				n.ghostVars = map[string]string{}
			}
			n.ghostVars[p.Name] = args[i].ghostSort
		}
	}
	v, err := n.evalRV(sf.Body)
	if err != nil {
		return SVal{}, fmt.Errorf("in spec %s: %v", sf.Name, err)
	}
	return v, nil
}

func (env *Env) callUninterp(sf *SpecFn, args []SVal) (SVal, error) {
	x := env.x
	var sorts []string
	var terms []string
	for i, a := range args {
		if a.Typ == nil && a.ghostSort != "" {
			sorts = append(sorts, a.ghostSort)
			terms = append(terms, a.L[0])
			continue
		}
		t, err := x.eng.lookupType(sf.Params[i].Type, sf.Imports, sf.PkgPath)
		if err != nil {
			return SVal{}, err
		}
		ls := x.eng.layout(t)
		av := a.Val
		if a.untyped && a.Typ == types.Typ[types.UntypedNil] {
			av = x.eng.zeroVal(t)
		}
		if len(ls) != len(av.L) {
			return SVal{}, fmt.Errorf("%s: argument %d has the wrong shape", sf.Name, i)
		}
		for k, l := range ls {
			sorts = append(sorts, l.Sort)
			terms = append(terms, av.L[k])
		}
	}
	rt, err := x.eng.lookupType(sf.Ret, sf.Imports, sf.PkgPath)
	if err != nil {
		return SVal{}, err
	}
	rl := x.eng.layout(rt)
	if len(rl) != 1 {
		return SVal{}, fmt.Errorf("%s: uninterpreted functions must return a scalar", sf.Name)
	}
	name := sym("uf:" + sf.Name)
	if !x.specDone[name] {
		x.specDone[name] = true
		x.sc.prelude = append(x.sc.prelude, "(declare-fun "+name+" ("+strings.Join(sorts, " ")+") "+rl[0].Sort+")")
	}
	t := name
	if len(terms) > 0 {
		t = "(" + name + " " + strings.Join(terms, " ") + ")"
	}
	return SVal{Val: Val{Typ: rt, L: []string{t}}}, nil
}

func (env *Env) mapSame(a SVal, sa *State, b SVal, sb *State) (SVal, error) {
	x := env.x
	mt, ok := a.Typ.Underlying().(*types.Map)
	if !ok {
		return SVal{}, fmt.Errorf("mapSame wants maps")
	}
	ks, ok := keySort(mt.Key())
	if !ok {
		return SVal{}, fmt.Errorf("unsupported map key")
	}
	da := sa.Get(x.mdName(mt), "(Array Int (Array "+ks+" Bool))")
	db := sb.Get(x.mdName(mt), "(Array Int (Array "+ks+" Bool))")
	cs := []string{Eq(Select(da, a.L[0]), Select(db, b.L[0]))}
	for _, l := range x.eng.layout(mt.Elem()) {
		va := sa.Get(x.mvName(mt, l.Path), "(Array Int (Array "+ks+" "+l.Sort+"))")
		vb := sb.Get(x.mvName(mt, l.Path), "(Array Int (Array "+ks+" "+l.Sort+"))")
		// values are only meaningful inside the domain
		x.uniq++
		k := sym(fmt.Sprintf("q!k!%d", x.uniq))
		cs = append(cs, "(forall (("+k+" "+ks+")) (=> (select "+Select(da, a.L[0])+" "+k+") (= (select "+Select(va, a.L[0])+" "+k+") (select "+Select(vb, b.L[0])+" "+k+"))))")
	}
	// a nil map equals only an empty/nil map: require same nil-ness for simplicity
	cs = append(cs, Eq(Eq(a.L[0], "0"), Eq(b.L[0], "0")))
	return boolV(And(cs...)), nil
}

func (x *Exec) mapLen(st *State, mt *types.Map, m string, reach string) string {
	ks, ok := keySort(mt.Key())
	if !ok {
		return x.sc.Fresh("maplen", "Int")
	}
	fn := sym("card:" + ks)
	if !x.specDone[fn] {
		x.specDone[fn] = true
		x.sc.prelude = append(x.sc.prelude, "(declare-fun "+fn+" ((Array "+ks+" Bool)) Int)",
			"(assert (= ("+fn+" ((as const (Array "+ks+" Bool)) false)) 0))")
	}
	d := st.Get(x.mdName(mt), "(Array Int (Array "+ks+" Bool))")
	t := x.sc.Define("maplen", "Int", Ite(Eq(m, "0"), "0", "("+fn+" "+Select(d, m)+")"))
	x.sc.Assume(reach, "(>= "+t+" 0)")
	return t
}

// ---------------- environments ----------------

// envForFunc binds parameter and result names of fn (or the names given in the contract header).
func (x *Exec) envForFunc(fn *ssa.Function, c *Contract, params []Val, results []Val, st, old *State) *Env {
	env := &Env{x: x, vars: map[string]Val{}, st: st, old: old, reach: "true", imports: c.Imports, pkgPath: c.PkgPath}
	sig := fn.Signature
	names := paramNames(sig, fn)
	if len(c.ParamNames) > 0 {
		names = c.ParamNames
	}
	for i, v := range params {
		if i < len(names) && names[i] != "" && names[i] != "_" {
			env.vars[names[i]] = v
		}
	}
	// a closure under contract: its captured variables are visible by name, with the value the cell holds in
	// the state the clause is evaluated in
	if fn == x.root && len(fn.FreeVars) == len(x.rootFVs) {
		for i, fv := range fn.FreeVars {
			if _, taken := env.vars[fv.Name()]; taken {
				continue
			}
			if _, ok := fv.Type().Underlying().(*types.Pointer); ok {
				env.vars[fv.Name()] = x.load(st, x.rootFVs[i], "true", token.NoPos)
			}
		}
	}
	if results != nil {
		bindResults(env, sig, c, results)
	}
	return env
}

func paramNames(sig *types.Signature, fn *ssa.Function) []string {
	var names []string
	if fn != nil {
		for _, p := range fn.Params {
			names = append(names, p.Name())
		}
		return names
	}
	if sig.Recv() != nil {
		names = append(names, sig.Recv().Name())
	}
	for i := 0; i < sig.Params().Len(); i++ {
		names = append(names, sig.Params().At(i).Name())
	}
	return names
}

func bindResults(env *Env, sig *types.Signature, c *Contract, results []Val) {
	rs := sig.Results()
	for i, v := range results {
		name := ""
		if i < len(c.ResultNames) {
			name = c.ResultNames[i]
		} else if i < rs.Len() && rs.At(i).Name() != "" && rs.At(i).Name() != "_" {
			name = rs.At(i).Name()
		}
		if name != "" {
			env.vars[name] = v
		}
		env.vars[fmt.Sprintf("result%d", i)] = v
		if i < rs.Len() && i == rs.Len()-1 && types.Identical(rs.At(i).Type(), types.Universe.Lookup("error").Type()) {
			if _, taken := env.vars["err"]; !taken || name == "" {
				env.vars["err"] = v
			}
		}
	}
	if len(results) >= 1 {
		if _, taken := env.vars["result"]; !taken {
			env.vars["result"] = results[0]
		}
	}
}

// localEnv is the environment for loop invariants at head.
func (f *frame) localEnv(head *ssa.BasicBlock, st *State, reach string) *Env {
	x := f.x
	c := f.contract
	env := x.envForFunc(f.fn, c, f.params, nil, st, f.entry)
	env.frame = f
	env.head = head
	env.reach = reach
	env.localOverride = map[*ssa.Phi]Val{}
	// in a loop invariant fresh(x) means: allocated since the function was entered
	if f.entry != nil {
		env.allocPre = f.entry.Get(allocName, "Int")
	}
	return env
}
