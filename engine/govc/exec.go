package govc

import (
	"fmt"
	"go/token"
	"go/types"
	"os"
	"sort"
	"strings"

	"golang.org/x/tools/go/ssa"
)

// Obligation is one proof goal: under the script prefix [0,ScriptLen) and Reach, Goal must hold.
type Obligation struct {
	Name      string
	Kind      string // ensures | pre | guard | inv.init | inv.keep | safe | frame | cover | lemma
	Label     string
	Props     []string
	Pos       string
	Func      string
	Reach     string
	Goal      string
	ScriptLen int
	ExpectSat bool
	ClauseSrc string
	Probes    []Probe
	Script    *Script
	Epilogue  []string
	slicedEpi []string
	Part      int // conjunct index when a clause was split into several queries (0 = not split)
	Parts     int
}

type Probe struct {
	Name string
	Term string
}

type loopInfo struct {
	id           int
	head         *ssa.BasicBlock
	written      map[string]bool
	havocAll     bool
	placeholders map[string][2]string // name -> {placeholder symbol, pre term}
	sorts        map[string]string
	writes       map[string][]string // array name -> object terms written ("" = whole array)
	scriptPos    int
	preAlloc     string
	invCache     map[string]bool
	phNames      map[string]string // placeholder symbol -> array name
}

// Exec verifies one function (the root) and everything inlined into it.
type Exec struct {
	eng         *Engine
	sc          *Script
	arraySort   map[string]string
	epochs      int
	obls        []*Obligation
	root        *ssa.Function
	rootC       *Contract
	frames      []*frame
	loops       []*loopInfo
	epilogue    []string
	Notes       map[string]int
	UsedTrust   map[string]bool
	Inlined     map[string]bool
	safe        bool
	specDone    map[string]bool
	uniq        int
	boxDecl     bool
	entryProbes []Probe
	revealed    map[string]bool
	lateProbes  []*Clause
	rootFVs     []Val          // the root function's free variables (pointers to the captured cells), when it is a closure
	spawning    bool           // applyContract is checking a `go` statement: preconditions and frame, no postconditions
	extraVars   map[string]Val // captured variables of the closure being spawned, by name
}

// lateProbeValues evaluates the probes that mention locals in the given environment.
func (x *Exec) lateProbeValues(env *Env) []Probe {
	var out []Probe
	for _, pc := range x.lateProbes {
		v, err := env.evalRV(pc.E)
		if err != nil || len(v.L) != 1 {
			continue
		}
		out = append(out, Probe{Name: pc.Label, Term: x.sc.Define("probe", sortOfVal(x, v), v.L[0])})
	}
	return out
}

const allocName = "G:alloc"

type edgeIn struct {
	from  *ssa.BasicBlock
	reach string
	st    *State
}

type retSite struct {
	reach   string
	st      *State
	results []Val
	pos     token.Pos
	block   int
}

type deferRec struct {
	reach string
	call  *ssa.Defer
	args  []Val
	fnVal Val
}

type frame struct {
	x        *Exec
	fn       *ssa.Function
	vals     map[ssa.Value]Val
	in       map[*ssa.BasicBlock][]edgeIn
	rets     []retSite
	contract *Contract // contract being verified (root frame only)
	heads    map[*ssa.BasicBlock]*loopHead
	curLoops []*loopInfo
	depth    int
	path     string
	defers   []deferRec
	curPos   token.Pos
	params   []Val
	entry    *State
	bReach   map[*ssa.BasicBlock]string
	iterSeq  int
}

type loopHead struct {
	li      *loopInfo
	ordinal int
	backs   []*ssa.BasicBlock // sources of back edges
	body    map[*ssa.BasicBlock]bool
	phiVals map[*ssa.Phi]Val
	invs    []*Clause
	env     *Env // environment at the head (after havoc), for inv.keep evaluation
}

func (e *Engine) NewExec(root *ssa.Function, c *Contract) *Exec {
	x := &Exec{eng: e, sc: NewScript(), arraySort: map[string]string{}, root: root, rootC: c,
		Notes: map[string]int{}, UsedTrust: map[string]bool{}, Inlined: map[string]bool{}, specDone: map[string]bool{}, revealed: map[string]bool{}}
	if c != nil {
		for _, r := range c.Reveal {
			x.revealed[r] = true
		}
	}
	return x
}

func (x *Exec) note(format string, a ...interface{}) {
	x.Notes[fmt.Sprintf(format, a...)]++
}

func (x *Exec) pos(p token.Pos) string {
	if !p.IsValid() {
		return ""
	}
	ps := x.eng.Prog.Fset.Position(p)
	f := ps.Filename
	if strings.HasPrefix(f, x.eng.RepoDir+"/") {
		f = f[len(x.eng.RepoDir)+1:]
	}
	return fmt.Sprintf("%s:%d", f, ps.Line)
}

func (x *Exec) line(p token.Pos) int {
	if !p.IsValid() {
		return 0
	}
	return x.eng.Prog.Fset.Position(p).Line
}

// siteSuffix names the call site in the root function when the current instruction belongs to an
// inlined callee, so that obligations raised inside shared helpers are told apart.
func (x *Exec) siteSuffix() string {
	if len(x.frames) > 1 {
		return fmt.Sprintf(".via%d", x.line(x.frames[0].curPos))
	}
	return ""
}

func (x *Exec) addObl(o *Obligation) {
	if o.Kind == "pre" || o.Kind == "guard" || o.Kind == "safe" {
		o.Name += x.siteSuffix()
	}
	o.Script = x.sc
	o.ScriptLen = x.sc.Len()
	o.Func = x.root.String()
	// one query per conjunct: small goals are decided quickly and stably
	if os.Getenv("GOVC_SPLIT") != "" && !o.ExpectSat && o.Kind != "safe" && o.Kind != "frame" {
		if parts := splitGoal(o.Goal); len(parts) > 1 && len(parts) <= 40 {
			for i, g := range parts {
				c := *o
				c.Goal = g
				c.Part = i + 1
				c.Parts = len(parts)
				x.obls = append(x.obls, &c)
			}
			return
		}
	}
	x.obls = append(x.obls, o)
}

// ---------------- heap naming ----------------

func (x *Exec) hName(root types.Type, leaf string) string {
	return "H:" + x.eng.typeKey(root) + ":" + leaf
}
func (x *Exec) eName(elem types.Type, leaf string) string {
	return "E:" + x.eng.typeKey(elem) + ":" + leaf
}

func keySort(k types.Type) (string, bool) {
	switch u := k.Underlying().(type) {
	case *types.Basic:
		if u.Info()&types.IsString != 0 {
			return "String", true
		}
		if u.Info()&types.IsInteger != 0 {
			return "Int", true
		}
		if u.Info()&types.IsBoolean != 0 {
			return "Bool", true
		}
	case *types.Pointer:
		return "Int", true
	}
	return "", false
}

func (x *Exec) mdName(m *types.Map) string { return "MD:" + x.eng.typeKey(m) }
func (x *Exec) mvName(m *types.Map, leaf string) string {
	return "MV:" + x.eng.typeKey(m) + ":" + leaf
}

// ---------------- allocation ----------------

func (x *Exec) alloc(st *State) string {
	a := st.Get(allocName, "Int")
	st.Set(allocName, "Int", "(+ "+a+" 1)")
	return a
}

func (x *Exec) bumpAlloc(st *State, reach string) (pre, post string) {
	pre = st.Get(allocName, "Int")
	post = x.sc.Fresh("alloc", "Int")
	x.sc.Assume(reach, "(>= "+post+" "+pre+")")
	st.heap[allocName] = post
	x.markWritten(allocName)
	return
}

// assumeTypeInv adds the type invariants of a freshly introduced value.
func (x *Exec) assumeTypeInv(v Val, st *State, reach string) {
	if len(v.Tuple) > 0 {
		for _, t := range v.Tuple {
			x.assumeTypeInv(t, st, reach)
		}
		return
	}
	if v.Typ == nil {
		return
	}
	ls := x.eng.layout(v.Typ)
	if len(ls) != len(v.L) {
		return
	}
	var facts []string
	for i, l := range ls {
		t := v.L[i]
		if isLiteral(t) {
			continue
		}
		switch l.Kind {
		case LInt:
			if lo, hi, ok := intRange(l.Typ); ok {
				facts = append(facts, "(<= "+BigLit(lo)+" "+t+")", "(<= "+t+" "+BigLit(hi)+")")
			}
		case LRef, LSArr:
			facts = append(facts, "(<= 0 "+t+")", "(< "+t+" "+st.Get(allocName, "Int")+")")
			if l.Kind == LSArr && i+2 < len(v.L) {
				facts = append(facts, Implies(Eq(t, "0"), Eq(v.L[i+2], "0")))
			}
		case LTag:
			facts = append(facts, "(<= 0 "+t+")")
			if i+1 < len(v.L) {
				facts = append(facts, Implies(Eq(t, "0"), Eq(v.L[i+1], "0")))
			}
		case LSOff, LSLen:
			facts = append(facts, "(<= 0 "+t+")")
		}
	}
	if len(facts) > 0 {
		x.sc.Assume(reach, And(facts...))
	}
}

func isLiteral(t string) bool {
	if t == "" {
		return true
	}
	c := t[0]
	return c >= '0' && c <= '9' || c == '"' || t == "true" || t == "false" || strings.HasPrefix(t, "(- ")
}

// freshVal creates an unconstrained value of type t (with type invariants).
func (x *Exec) freshVal(t types.Type, prefix string, st *State, reach string) Val {
	if tup, ok := t.(*types.Tuple); ok {
		v := Val{Typ: t}
		for i := 0; i < tup.Len(); i++ {
			v.Tuple = append(v.Tuple, x.freshVal(tup.At(i).Type(), prefix, st, reach))
		}
		return v
	}
	ls := x.eng.layout(t)
	v := Val{Typ: t, L: make([]string, len(ls))}
	for i, l := range ls {
		v.L[i] = x.sc.Fresh(prefix, l.Sort)
	}
	x.assumeTypeInv(v, st, reach)
	return v
}

func (x *Exec) unsup(reason string, t types.Type, st *State, reach string) Val {
	x.note("unsupported: %s", reason)
	if t == nil {
		return Val{}
	}
	v := x.freshVal(t, "unsup", st, reach)
	v.Unsup = reason
	return v
}

// ---------------- memory access ----------------

type cell struct {
	root   types.Type
	elem   bool
	obj    string
	idx    string
	prefix string
}

func (x *Exec) cellOf(p Val) (cell, types.Type, bool) {
	pt, ok := p.Typ.Underlying().(*types.Pointer)
	if !ok || len(p.L) != 1 {
		return cell{}, nil, false
	}
	if p.Ptr == nil {
		return cell{root: pt.Elem(), obj: p.L[0]}, pt.Elem(), true
	}
	return cell{root: p.Ptr.Root, elem: p.Ptr.Elem, obj: p.L[0], idx: p.Ptr.Idx, prefix: p.Ptr.Path}, pt.Elem(), true
}

func (x *Exec) leafRead(st *State, c cell, leaf Leaf) string {
	full := joinPath(c.prefix, leaf.Path)
	if c.elem {
		a := st.Get(x.eName(c.root, full), "(Array Int (Array Int "+leaf.Sort+"))")
		return Select(Select(a, c.obj), c.idx)
	}
	a := st.Get(x.hName(c.root, full), "(Array Int "+leaf.Sort+")")
	return Select(a, c.obj)
}

func (x *Exec) leafWrite(st *State, c cell, leaf Leaf, v string) {
	full := joinPath(c.prefix, leaf.Path)
	if c.elem {
		name := x.eName(c.root, full)
		sort := "(Array Int (Array Int " + leaf.Sort + "))"
		a := st.Get(name, sort)
		st.Set(name, sort, Store(a, c.obj, Store(Select(a, c.obj), c.idx, v)))
		x.markWrittenAt(name, c.obj)
		return
	}
	name := x.hName(c.root, full)
	sort := "(Array Int " + leaf.Sort + ")"
	a := st.Get(name, sort)
	st.Set(name, sort, Store(a, c.obj, v))
	x.markWrittenAt(name, c.obj)
}

func (x *Exec) markWritten(name string) { x.markWrittenAt(name, "") }

// markWrittenAt records that row obj of heap array name is written inside the active loops
// (obj == "" : anywhere in the array).
func (x *Exec) markWrittenAt(name, obj string) {
	for _, f := range x.frames {
		for _, li := range f.curLoops {
			li.written[name] = true
			li.writes[name] = append(li.writes[name], obj)
		}
	}
}

func (x *Exec) markHavocAll() {
	for _, f := range x.frames {
		for _, li := range f.curLoops {
			li.havocAll = true
		}
	}
}

// load reads the value a pointer points to.
func (x *Exec) load(st *State, p Val, reach string, pos token.Pos) Val {
	c, elemT, ok := x.cellOf(p)
	if !ok || p.Unsup != "" && p.Ptr == nil && false {
		return x.unsup("load through non-pointer", nil, st, reach)
	}
	x.safeNonNil(c.obj, reach, pos, "nil-deref")
	ls := x.eng.layout(elemT)
	v := Val{Typ: elemT, L: make([]string, len(ls))}
	for i, l := range ls {
		v.L[i] = x.sc.Define("ld", l.Sort, x.leafRead(st, c, l))
	}
	x.assumeTypeInv(v, st, reach)
	return v
}

func (x *Exec) store(st *State, p Val, v Val, reach string, pos token.Pos) {
	c, elemT, ok := x.cellOf(p)
	if !ok {
		x.note("unsupported: store through non-pointer")
		x.havocAll(st)
		return
	}
	x.safeNonNil(c.obj, reach, pos, "nil-deref")
	ls := x.eng.layout(elemT)
	if len(ls) != len(v.L) {
		x.note("unsupported: store layout mismatch %s", x.eng.typeKey(elemT))
		x.havocAll(st)
		return
	}
	for i, l := range ls {
		x.leafWrite(st, c, l, v.L[i])
	}
}

func (x *Exec) ghostNames() []string {
	var keep []string
	for name := range x.arraySort {
		if strings.HasPrefix(name, "G:") || strings.HasPrefix(name, "V:") || strings.HasPrefix(name, "P:") {
			keep = append(keep, name)
		}
	}
	sort.Strings(keep)
	return keep
}

func (x *Exec) havocAll(st *State) {
	keep := x.ghostNames()
	st.HavocAll(keep)
	x.markHavocAll()
}

// safeNonNil: dereferencing obj panics when it is nil. In safe mode that is an obligation; in every
// mode execution continues past the instruction only if it did not panic, so the condition is
// assumed afterwards.
func (x *Exec) safeNonNil(obj string, reach string, pos token.Pos, what string) {
	if isLiteral(obj) && obj != "0" {
		return
	}
	if x.safe {
		x.addObl(&Obligation{Kind: "safe", Label: what, Props: x.safeProps(), Pos: x.pos(pos), Reach: reach, Goal: Not(Eq(obj, "0")),
			Name: fmt.Sprintf("%s#safe.%s@L%d", shortFn(x.root), what, x.line(pos))})
	}
	x.sc.Assume(reach, Not(Eq(obj, "0")))
}

func (x *Exec) safeCond(cond string, reach string, pos token.Pos, what string) {
	if cond == "true" {
		return
	}
	if x.safe {
		x.addObl(&Obligation{Kind: "safe", Label: what, Props: x.safeProps(), Pos: x.pos(pos), Reach: reach, Goal: cond,
			Name: fmt.Sprintf("%s#safe.%s@L%d", shortFn(x.root), what, x.line(pos))})
	}
	x.sc.Assume(reach, cond)
}

func sortOfVal(x *Exec, v SVal) string {
	if v.ghostSort != "" {
		return v.ghostSort
	}
	if v.Typ != nil {
		if ls := x.eng.layout(v.Typ); len(ls) == 1 {
			return ls[0].Sort
		}
	}
	return "Int"
}

func shortFn(fn *ssa.Function) string {
	s := fn.String()
	s = strings.ReplaceAll(s, ModPath+"/pkg/", "")
	s = strings.ReplaceAll(s, ModPath+"/", "")
	return s
}

// ---------------- running a function ----------------

// VerifyRoot symbolically executes the root function against its contract and returns the obligations.
func (x *Exec) VerifyRoot() ([]*Obligation, error) {
	fn := x.root
	if len(fn.Blocks) == 0 {
		return nil, fmt.Errorf("%s has no body", fn)
	}
	if x.rootC != nil && x.rootC.Safe {
		x.safe = true
	}
	st := x.newEpochState()
	reach := "true"
	a0 := st.Get(allocName, "Int")
	x.sc.Assert(fmt.Sprintf("(> %s %d)", a0, maxGlobals))
	var params []Val
	for _, p := range fn.Params {
		params = append(params, x.freshVal(p.Type(), "p_"+p.Name(), st, reach))
	}
	var fvs []Val
	for _, fv := range fn.FreeVars {
		v := x.freshVal(fv.Type(), "fv_"+fv.Name(), st, reach)
		// a captured variable lives in a cell of the enclosing function: its address is never nil
		if len(v.L) == 1 {
			x.sc.Assert(fmt.Sprintf("(and (> %s 0) (< %s %s))", v.L[0], v.L[0], a0))
		}
		fvs = append(fvs, v)
	}
	x.rootFVs = fvs
	entry := st.clone()
	entry.frozen = true
	f := x.newFrame(fn, params, fvs, 0, "")
	f.contract = x.rootC
	f.entry = entry
	// lemmas this proof relies on (each is an obligation of its own, proved with every definition revealed)
	if x.rootC != nil {
		for _, name := range x.rootC.Use {
			var lem *Lemma
			for _, l := range x.eng.CS.Lemmas {
				if l.Name == name {
					lem = l
				}
			}
			if lem == nil {
				return nil, fmt.Errorf("%s:%d: unknown lemma %q", x.rootC.File, x.rootC.Line, name)
			}
			lenv := &Env{x: x, vars: map[string]Val{}, st: st, old: st, reach: "true", imports: lem.Imports, pkgPath: lem.PkgPath}
			t, err := lenv.evalBool(lem.E)
			if err != nil {
				return nil, fmt.Errorf("%s:%d: %v", lem.File, lem.Line, err)
			}
			x.sc.AssertLemma(t)
		}
	}
	// preconditions
	if x.rootC != nil {
		env := x.envForFunc(fn, x.rootC, params, nil, st, entry)
		for _, c := range x.rootC.Requires {
			t, err := env.evalBool(c.E)
			if err != nil {
				return nil, fmt.Errorf("%s:%d: %v", c.File, c.Line, err)
			}
			x.sc.Assume(reach, t)
		}
		for _, pc := range x.rootC.Probes {
			v, err := env.evalRV(pc.E)
			if err != nil {
				// probably mentions a local: evaluated where an obligation needs it
				x.lateProbes = append(x.lateProbes, pc)
				continue
			}
			if len(v.L) == 1 {
				x.entryProbes = append(x.entryProbes, Probe{Name: pc.Label, Term: x.sc.Define("probe", sortOfVal(x, v), v.L[0])})
			}
		}
		x.addObl(&Obligation{Kind: "cover", Label: "entry", Pos: x.pos(fn.Pos()), Reach: "true", Goal: "false", ExpectSat: true,
			Name: fmt.Sprintf("%s#cover.entry", shortFn(fn))})
	}
	if err := f.run(st, reach); err != nil {
		return nil, err
	}
	// postconditions at every return site
	if x.rootC != nil {
		for _, r := range f.rets {
			env := x.envForFunc(fn, x.rootC, params, r.results, r.st, entry)
			env.reach = r.reach
			env.frame = f // postconditions may mention locals with a single definition (resolved through DebugRefs)
			env.allocPre = entry.Get(allocName, "Int")
			// vacuity guard: the return must be reachable under everything assumed on the way to it
			x.addObl(&Obligation{Kind: "cover", Label: "return", Pos: x.pos(r.pos), Reach: r.reach, Goal: "false", ExpectSat: true,
				Name: fmt.Sprintf("%s#cover.return@ret%d", shortFn(fn), r.block)})
			env.retBlock = fn.Blocks[r.block]
			oos := false
			env.outOfScope = &oos
			for _, c := range x.rootC.Ensures {
				if c.Assumed {
					continue
				}
				oos = false
				t, err := env.evalBool(c.E)
				if err != nil {
					if oos {
						continue // the clause talks about a local that is not defined on every path to this return
					}
					return nil, fmt.Errorf("%s:%d: %v", c.File, c.Line, err)
				}
				o := &Obligation{Kind: "ensures", Label: c.Label, Props: c.Props, Pos: x.pos(r.pos), Reach: r.reach, Goal: t, ClauseSrc: c.Src,
					Name: fmt.Sprintf("%s#ensures.%s@ret%d", shortFn(fn), c.Label, r.block)}
				o.Probes = append(o.Probes, x.entryProbes...)
				o.Probes = append(o.Probes, env.probes...)
				o.Probes = append(o.Probes, x.lateProbeValues(env)...)
				x.addObl(o)
			}
			if x.rootC.HasModifies && !x.rootC.ModAll {
				x.frameObligations(fn, x.rootC, params, r, entry)
			}
		}
	}
	// vacuity guard: every point an obligation is stated at must be reachable under the assumptions
	// made on the way to it (one witness query per distinct reachability condition)
	seenReach := map[string]bool{"true": true}
	var covers []*Obligation
	// a witness belongs to the properties of the obligations it guards (all of them when one is untagged)
	reachAll := map[string]bool{}
	reachProps := map[string][]string{}
	for _, o := range x.obls {
		if o.ExpectSat {
			continue
		}
		if len(o.Props) == 0 {
			reachAll[o.Reach] = true
			continue
		}
		for _, p := range o.Props {
			if !hasProp(reachProps[o.Reach], p) {
				reachProps[o.Reach] = append(reachProps[o.Reach], p)
			}
		}
	}
	for _, o := range x.obls {
		if o.ExpectSat || seenReach[o.Reach] {
			continue
		}
		seenReach[o.Reach] = true
		var cprops []string
		if !reachAll[o.Reach] {
			cprops = reachProps[o.Reach]
		}
		covers = append(covers, &Obligation{Kind: "cover", Label: "return", Props: cprops, Pos: o.Pos, Reach: o.Reach, Goal: "false", ExpectSat: true,
			Name: fmt.Sprintf("%s#cover.reach@%s", shortFn(fn), strings.TrimPrefix(o.Name[strings.Index(o.Name, "#")+1:], "")), Script: x.sc, ScriptLen: o.ScriptLen, Func: fn.String()})
	}
	x.obls = append(x.obls, covers...)
	x.finishLoops()
	for _, o := range x.obls {
		o.Epilogue = x.epilogue
	}
	return x.obls, nil
}

func (x *Exec) finishLoops() {
	for _, li := range x.loops {
		for _, name := range sortedKeys(li.placeholders) {
			ph := li.placeholders[name]
			if li.havocAll {
				// a call without a frame inside the loop havocked the program heap; ghost state is
				// only ever changed by contracts, so ghosts the loop does not write keep their value
				if (strings.HasPrefix(name, "G:") || strings.HasPrefix(name, "V:") || strings.HasPrefix(name, "P:")) && !li.written[name] {
					x.epilogue = append(x.epilogue, fmt.Sprintf("(assert (= %s %s))", ph[0], ph[1]))
				}
				continue
			}
			if !li.written[name] {
				x.epilogue = append(x.epilogue, fmt.Sprintf("(assert (= %s %s))", ph[0], ph[1]))
				continue
			}
			// loop frame: rows of objects the loop body does not write keep their pre-loop value
			sort := x.arraySort[name]
			if !strings.HasPrefix(sort, "(Array Int ") {
				continue
			}
			var known []string
			freshWrites, unknown := false, false
			seen := map[string]bool{}
			for _, t := range li.writes[name] {
				switch x.classifyIndex(t, li) {
				case "invariant":
					if !seen[t] {
						seen[t] = true
						known = append(known, t)
					}
				case "fresh":
					freshWrites = true
				default:
					unknown = true
				}
			}
			if unknown {
				continue
			}
			conds := []string{}
			if freshWrites {
				conds = append(conds, "(< o "+li.preAlloc+")")
			}
			for _, t := range known {
				conds = append(conds, "(not (= o "+t+"))")
			}
			x.epilogue = append(x.epilogue, fmt.Sprintf("(assert (forall ((o Int)) (! (=> %s (= (select %s o) (select %s o))) :pattern ((select %s o)))))", And(conds...), ph[0], ph[1], ph[0]))
		}
	}
}

// classifyIndex decides whether an object term written inside a loop is loop-invariant
// (its value is the same in every iteration), freshly allocated inside the loop, or unknown.
func (x *Exec) classifyIndex(t string, li *loopInfo) string {
	if t == "" || !isAtom(t) {
		return "unknown"
	}
	if x.loopInvariant(t, li, map[string]bool{}) {
		return "invariant"
	}
	for _, p := range []string{"new!", "newmap!", "newarr!", "boxobj!", "newchan!"} {
		if strings.HasPrefix(t, p) {
			return "fresh"
		}
	}
	return "unknown"
}

// loopInvariant: the symbol denotes the same value on every iteration of li. True for symbols
// introduced before the loop, for the placeholders of heap arrays the loop does not write and
// for abbreviations built only from such symbols.
func (x *Exec) loopInvariant(s string, li *loopInfo, busy map[string]bool) bool {
	if isLiteral(s) {
		return true
	}
	if v, ok := li.invCache[s]; ok {
		return v
	}
	if busy[s] {
		return false
	}
	busy[s] = true
	res := false
	idx, declared := x.sc.defIndex[s]
	switch {
	case !declared:
		// theory symbol (select, store, ite, +, ...) or prelude function
		res = true
	case idx < li.scriptPos:
		res = true
	default:
		if name, ok := li.phNames[s]; ok {
			res = !li.written[name] && !li.havocAll
		} else if def, ok := x.sc.defTerm[s]; ok {
			res = true
			for _, u := range termSymbols(def) {
				if !x.loopInvariant(u, li, busy) {
					res = false
					break
				}
			}
		}
	}
	li.invCache[s] = res
	return res
}

func (x *Exec) newFrame(fn *ssa.Function, params []Val, freeVars []Val, depth int, path string) *frame {
	f := &frame{x: x, fn: fn, vals: map[ssa.Value]Val{}, in: map[*ssa.BasicBlock][]edgeIn{}, heads: map[*ssa.BasicBlock]*loopHead{},
		depth: depth, path: path, params: params, bReach: map[*ssa.BasicBlock]string{}}
	for i, p := range fn.Params {
		f.vals[p] = params[i]
	}
	for i, fv := range fn.FreeVars {
		if i < len(freeVars) {
			f.vals[fv] = freeVars[i]
		}
	}
	f.findLoops()
	return f
}

// findLoops identifies natural loops (back edge u->h with h dominating u) and numbers the
// heads in source order.
func (f *frame) findLoops() {
	fn := f.fn
	for _, b := range fn.Blocks {
		for _, s := range b.Succs {
			if s.Dominates(b) {
				h := f.heads[s]
				if h == nil {
					h = &loopHead{body: map[*ssa.BasicBlock]bool{s: true}}
					f.heads[s] = h
				}
				h.backs = append(h.backs, b)
				// natural loop body: nodes that reach b without passing through s
				var stack []*ssa.BasicBlock
				if !h.body[b] {
					h.body[b] = true
					stack = append(stack, b)
				}
				for len(stack) > 0 {
					n := stack[len(stack)-1]
					stack = stack[:len(stack)-1]
					for _, p := range n.Preds {
						if !h.body[p] {
							h.body[p] = true
							stack = append(stack, p)
						}
					}
				}
			}
		}
	}
	// ordinal by source position of the head block's first positioned instruction, fall back to block index
	var hs []*ssa.BasicBlock
	for b := range f.heads {
		hs = append(hs, b)
	}
	sort.Slice(hs, func(i, j int) bool {
		pi, pj := loopPos(hs[i], f.heads[hs[i]]), loopPos(hs[j], f.heads[hs[j]])
		if pi != pj {
			return pi < pj
		}
		return hs[i].Index < hs[j].Index
	})
	for i, b := range hs {
		f.heads[b].ordinal = i + 1
		if os.Getenv("GOVC_DEBUG_LOOPS") != "" {
			fmt.Fprintf(os.Stderr, "loop %d of %s: head block %d at %s\n", i+1, f.fn.Name(), b.Index, f.x.pos(loopPos(b, f.heads[b])))
		}
	}
}

func loopPos(b *ssa.BasicBlock, h *loopHead) token.Pos {
	best := token.NoPos
	for blk := range h.body {
		for _, in := range blk.Instrs {
			if _, isDbg := in.(*ssa.DebugRef); isDbg {
				continue
			}
			if p := in.Pos(); p.IsValid() && (best == token.NoPos || p < best) {
				best = p
			}
		}
	}
	return best
}

func (f *frame) loopsOf(b *ssa.BasicBlock) []*loopInfo {
	var out []*loopInfo
	for _, h := range f.heads {
		if h.body[b] && h.li != nil {
			out = append(out, h.li)
		}
	}
	return out
}

// run executes the function body from the entry block.
func (f *frame) run(st *State, reach string) error {
	x := f.x
	x.frames = append(x.frames, f)
	defer func() { x.frames = x.frames[:len(x.frames)-1] }()
	fn := f.fn
	order := f.rpo()
	f.in[fn.Blocks[0]] = []edgeIn{{from: nil, reach: reach, st: st}}
	for _, b := range order {
		ins := f.in[b]
		if len(ins) == 0 {
			continue // unreachable (e.g. recover block)
		}
		var breach string
		var bst *State
		// merge predecessors
		rs := make([]string, len(ins))
		for i, e := range ins {
			rs[i] = e.reach
		}
		breach = x.sc.Define("reach", "Bool", Or(rs...))
		bst = ins[len(ins)-1].st
		for i := len(ins) - 2; i >= 0; i-- {
			bst = x.mergeStates(ins[i].reach, ins[i].st, bst)
		}
		if len(ins) == 1 {
			bst = bst.clone()
		}
		// phis
		for _, in := range b.Instrs {
			phi, ok := in.(*ssa.Phi)
			if !ok {
				break
			}
			var acc Val
			first := true
			for i := len(ins) - 1; i >= 0; i-- {
				e := ins[i]
				idx := predIndex(b, e.from)
				if idx < 0 {
					continue
				}
				v := f.value(phi.Edges[idx], e.st, e.reach)
				if first {
					acc = v
					first = false
				} else {
					acc = x.mergeVals(e.reach, v, acc)
				}
			}
			f.vals[phi] = acc
		}
		f.bReach[b] = breach
		if h := f.heads[b]; h != nil {
			var err error
			bst, err = f.enterLoop(b, h, bst, breach)
			if err != nil {
				return err
			}
		}
		f.curLoops = f.loopsOf(b)
		if err := f.execBlock(b, bst, breach); err != nil {
			return err
		}
	}
	return nil
}

func predIndex(b, from *ssa.BasicBlock) int {
	for i, p := range b.Preds {
		if p == from {
			return i
		}
	}
	return -1
}

// rpo returns blocks in reverse postorder of the CFG without back edges.
func (f *frame) rpo() []*ssa.BasicBlock {
	seen := map[*ssa.BasicBlock]bool{}
	var post []*ssa.BasicBlock
	var dfs func(b *ssa.BasicBlock)
	dfs = func(b *ssa.BasicBlock) {
		seen[b] = true
		for _, s := range b.Succs {
			if s.Dominates(b) { // back edge
				continue
			}
			if !seen[s] {
				dfs(s)
			}
		}
		post = append(post, b)
	}
	dfs(f.fn.Blocks[0])
	for i, j := 0, len(post)-1; i < j; i, j = i+1, j-1 {
		post[i], post[j] = post[j], post[i]
	}
	return post
}

func (x *Exec) mergeVals(cond string, a, b Val) Val {
	if len(a.Tuple) > 0 || len(b.Tuple) > 0 {
		out := Val{Typ: a.Typ}
		for i := range a.Tuple {
			out.Tuple = append(out.Tuple, x.mergeVals(cond, a.Tuple[i], b.Tuple[i]))
		}
		return out
	}
	if len(a.L) != len(b.L) {
		// nil constants etc: pad using zero of the other's type
		if len(a.L) == 0 {
			a = x.eng.zeroVal(b.Typ)
		} else if len(b.L) == 0 {
			b = x.eng.zeroVal(a.Typ)
		}
	}
	out := Val{Typ: a.Typ, L: make([]string, len(a.L))}
	ls := x.eng.layout(a.Typ)
	for i := range a.L {
		s := "Int"
		if i < len(ls) {
			s = ls[i].Sort
		}
		out.L[i] = x.sc.Define("phi", s, Ite(cond, a.L[i], b.L[i]))
	}
	switch {
	case a.Ptr == nil && b.Ptr == nil:
	case a.Ptr != nil && b.Ptr != nil && a.Ptr.Path == b.Ptr.Path && a.Ptr.Elem == b.Ptr.Elem && types.Identical(a.Ptr.Root, b.Ptr.Root):
		p := *a.Ptr
		if p.Elem {
			p.Idx = x.sc.Define("phi", "Int", Ite(cond, a.Ptr.Idx, b.Ptr.Idx))
		}
		out.Ptr = &p
	default:
		// nil pointer on one side keeps the other's shape
		if a.Ptr != nil && len(b.L) == 1 && b.L[0] == "0" {
			p := *a.Ptr
			out.Ptr = &p
		} else if b.Ptr != nil && len(a.L) == 1 && a.L[0] == "0" {
			p := *b.Ptr
			out.Ptr = &p
		} else {
			x.note("unsupported: phi of differently shaped interior pointers")
			out.Unsup = "phi of interior pointers"
		}
	}
	if a.Clo != nil && b.Clo != nil && a.Clo.Fn == b.Clo.Fn {
		out.Clo = a.Clo
	}
	if a.Unsup != "" {
		out.Unsup = a.Unsup
	}
	if b.Unsup != "" {
		out.Unsup = b.Unsup
	}
	return out
}

// enterLoop checks the invariants on entry, havocs loop-carried state and assumes the invariants.
func (f *frame) enterLoop(b *ssa.BasicBlock, h *loopHead, pre *State, reach string) (*State, error) {
	x := f.x
	li := &loopInfo{id: len(x.loops) + 1, head: b, written: map[string]bool{}, placeholders: map[string][2]string{}, writes: map[string][]string{}, invCache: map[string]bool{}, phNames: map[string]string{}}
	x.loops = append(x.loops, li)
	h.li = li
	if f.contract != nil && f.depth == 0 {
		h.invs = f.contract.Invariants[h.ordinal]
	}
	// inv.init with the entry values of the phis
	if len(h.invs) > 0 {
		env := f.localEnv(b, pre, reach)
		for _, c := range h.invs {
			t, err := env.evalBool(c.E)
			if err != nil {
				return nil, fmt.Errorf("%s:%d: %v", c.File, c.Line, err)
			}
			x.addObl(&Obligation{Kind: "inv.init", Label: c.Label, Props: c.Props, Pos: x.pos(loopPos(b, h)), Reach: reach, Goal: t, ClauseSrc: c.Src,
				Name: fmt.Sprintf("%s#inv.init.%s@loop%d", shortFn(f.fn), c.Label, h.ordinal)})
		}
	}
	// havoc: phis become fresh, heap becomes lazily-havocked
	pre.frozen = true
	preAlloc := pre.Get(allocName, "Int")
	li.preAlloc = preAlloc
	li.scriptPos = x.sc.Len()
	st := &State{x: x, heap: map[string]string{}, m: nil, epoch: -li.id}
	st.loop = &loopBase{pre: pre, li: li}
	for _, in := range b.Instrs {
		phi, ok := in.(*ssa.Phi)
		if !ok {
			break
		}
		nv := x.freshVal(phi.Type(), "lp_"+strings.ReplaceAll(phi.Comment, " ", "_"), st, reach)
		old := f.vals[phi]
		if old.Ptr != nil {
			p := *old.Ptr
			if p.Elem {
				p.Idx = x.sc.Fresh("lpidx", "Int")
			}
			nv.Ptr = &p
		}
		nv.Clo = old.Clo
		f.vals[phi] = nv
		if phi.Comment == "rangeindex" && len(nv.L) == 1 {
			// the hidden index of a range loop starts at -1 and only grows (by construction of go/ssa)
			x.sc.Assume(reach, "(<= (- 1) "+nv.L[0]+")")
		}
	}
	x.sc.Assume(reach, "(>= "+st.Get(allocName, "Int")+" "+preAlloc+")")
	li.written[allocName] = true
	// map iterators' visited sets are loop-carried too (handled as heap entries V:*)
	if len(h.invs) > 0 {
		env := f.localEnv(b, st, reach)
		h.env = env
		for _, c := range h.invs {
			t, err := env.evalBool(c.E)
			if err != nil {
				return nil, fmt.Errorf("%s:%d: %v", c.File, c.Line, err)
			}
			x.sc.Assume(reach, t)
		}
	}
	return st, nil
}

// backEdge emits inv.keep obligations for the edge from -> head.
func (f *frame) backEdge(from, head *ssa.BasicBlock, st *State, reach string) error {
	x := f.x
	h := f.heads[head]
	if h == nil || f.contract == nil || f.depth != 0 {
		return nil
	}
	env := f.localEnv(head, st, reach)
	if f.contract != nil && f.depth == 0 {
		benv := f.localEnv(head, st, reach)
		benv.head = nil
		for _, c := range f.contract.BackEdges[h.ordinal] {
			t, err := benv.evalBool(c.E)
			if err != nil {
				return fmt.Errorf("%s:%d: %v", c.File, c.Line, err)
			}
			o := &Obligation{Kind: "backedge", Label: c.Label, Props: c.Props, Pos: x.pos(loopPos(head, h)), Reach: reach, Goal: t, ClauseSrc: c.Src,
				Name: fmt.Sprintf("%s#backedge.%s@loop%d.b%d", shortFn(f.fn), c.Label, h.ordinal, from.Index)}
			o.Probes = append(o.Probes, x.entryProbes...)
			o.Probes = append(o.Probes, x.lateProbeValues(benv)...)
			x.addObl(o)
		}
	}
	if len(h.invs) == 0 {
		return nil
	}
	idx := predIndex(head, from)
	for _, in := range head.Instrs {
		phi, ok := in.(*ssa.Phi)
		if !ok {
			break
		}
		if idx >= 0 {
			env.localOverride[phi] = f.value(phi.Edges[idx], st, reach)
		}
	}
	for _, c := range h.invs {
		t, err := env.evalBool(c.E)
		if err != nil {
			return fmt.Errorf("%s:%d: %v", c.File, c.Line, err)
		}
		x.addObl(&Obligation{Kind: "inv.keep", Label: c.Label, Props: c.Props, Pos: x.pos(loopPos(head, h)), Reach: reach, Goal: t, ClauseSrc: c.Src,
			Name: fmt.Sprintf("%s#inv.keep.%s@loop%d.b%d", shortFn(f.fn), c.Label, h.ordinal, from.Index)})
	}
	return nil
}

func (f *frame) edge(from, to *ssa.BasicBlock, st *State, reach string) error {
	if reach == "false" {
		return nil
	}
	if to.Dominates(from) { // back edge
		return f.backEdge(from, to, st, reach)
	}
	r := f.x.sc.Define("edge", "Bool", reach)
	f.in[to] = append(f.in[to], edgeIn{from: from, reach: r, st: st})
	return nil
}

func (f *frame) execBlock(b *ssa.BasicBlock, st *State, reach string) error {
	x := f.x
	for _, in := range b.Instrs {
		if p := in.Pos(); p.IsValid() {
			f.curPos = p
		}
		switch in := in.(type) {
		case *ssa.Phi, *ssa.DebugRef:
			continue
		case *ssa.If:
			c := f.value(in.Cond, st, reach).L[0]
			st.frozen = true
			if err := f.edge(b, b.Succs[0], st, And(reach, c)); err != nil {
				return err
			}
			return f.edge(b, b.Succs[1], st, And(reach, Not(c)))
		case *ssa.Jump:
			st.frozen = true
			return f.edge(b, b.Succs[0], st, reach)
		case *ssa.Return:
			var rs []Val
			for _, r := range in.Results {
				rs = append(rs, f.value(r, st, reach))
			}
			st.frozen = true
			f.rets = append(f.rets, retSite{reach: reach, st: st, results: rs, pos: in.Pos(), block: b.Index})
			return nil
		case *ssa.Panic:
			if x.safe {
				x.addObl(&Obligation{Kind: "safe", Label: "explicit-panic", Props: x.safeProps(), Pos: x.pos(in.Pos()), Reach: reach, Goal: "false",
					Name: fmt.Sprintf("%s#safe.explicit-panic@L%d", shortFn(x.root), x.line(in.Pos()))})
			}
			return nil
		default:
			if err := f.execInstr(in, st, reach); err != nil {
				return err
			}
		}
	}
	return nil
}

// safeProps names the properties a no-panic obligation counts for: C12 for the request handlers, and for a
// function swept outside C12 (the v3 reconciler steps) the properties its contract lists.
func (x *Exec) safeProps() []string {
	if x.rootC == nil || len(x.rootC.Props) == 0 || hasProp(x.rootC.Props, "C12") {
		return []string{"C12"}
	}
	return x.rootC.Props
}
