package govc

import (
	"bytes"
	"context"
	"fmt"
	"os"
	"os/exec"
	"path/filepath"
	"strings"
	"sync"
	"time"
)

type SolveResult struct {
	Status  string // unsat | sat | unknown | timeout | error
	Solver  string
	Seconds float64
	Model   map[string]string
	Raw     string
	All     map[string]string // per-solver status (thorough cross-check)
	Relaxed bool              // Model comes from the relaxed query
	Sliced  bool              // discharged on the cone-of-influence slice of the query
}

// wallFactor: the wall-clock backstop is this many times the CPU budget.
const wallFactor = 20

type solverSpec struct {
	name string
	args func(file string, timeoutS int) []string
}

// A small portfolio: quantified goals sit on the edge of what e-matching finds, and which
// configuration finds the proof first varies with irrelevant details of the query text. The first
// definite answer wins; two definite answers that disagree are an error.
var solvers = []solverSpec{
	{"z3-new-5.1.0", func(f string, t int) []string { return []string{"z3-new", fmt.Sprintf("-T:%d", t), f} }},
	{"cvc5-1.0", func(f string, t int) []string {
		return []string{"cvc5", "--strings-exp", "--produce-models", fmt.Sprintf("--tlimit=%d", t*1000), f}
	}},
	{"z3-4.8.12", func(f string, t int) []string { return []string{"z3", fmt.Sprintf("-T:%d", t), f} }},
	{"z3-new-5.1.0/arith2", func(f string, t int) []string {
		return []string{"z3-new", fmt.Sprintf("-T:%d", t), "smt.arith.solver=2", f}
	}},
	{"cvc5-1.0/no-cbqi", func(f string, t int) []string {
		return []string{"cvc5", "--strings-exp", "--produce-models", "--no-cbqi", fmt.Sprintf("--tlimit=%d", t*1000), f}
	}},
	{"z3-4.8.12/arith2", func(f string, t int) []string {
		return []string{"z3", fmt.Sprintf("-T:%d", t), "smt.arith.solver=2", f}
	}},
}

// SetSeed adds, for a non-zero seed, one seeded run of each solver family to the portfolio. The
// default members always run with their default seeds, so what is provable without a seed stays
// provable with one: the seed can only add proofs, never remove them.
func SetSeed(seed int) {
	if seed == 0 || seededAdded {
		return
	}
	seededAdded = true
	sd := seed % 100000
	solvers = append(solvers,
		solverSpec{fmt.Sprintf("z3-new-5.1.0/seed%d", sd), func(f string, t int) []string {
			return []string{"z3-new", fmt.Sprintf("-T:%d", t), fmt.Sprintf("smt.random_seed=%d", sd), fmt.Sprintf("sat.random_seed=%d", sd), f}
		}},
		solverSpec{fmt.Sprintf("cvc5-1.0/seed%d", sd), func(f string, t int) []string {
			return []string{"cvc5", "--strings-exp", "--produce-models", fmt.Sprintf("--seed=%d", sd), fmt.Sprintf("--tlimit=%d", t*1000), f}
		}})
}

var seededAdded bool

// Query renders the SMT query of an obligation.
func (o *Obligation) Query(seed int) string { return o.query(seed, false) }

// RelaxedQuery drops the quantified loop-frame facts: a weaker hypothesis set, used only to obtain a
// candidate counterexample when the full query comes back unknown (the model must then replay).
func (o *Obligation) RelaxedQuery(seed int) string { return o.query(seed, true) }

// SlicedQuery renders the query restricted to the cone of influence of the goal.
func (o *Obligation) SlicedQuery(seed int) string { return o.queryOpt(seed, false, true) }

func (o *Obligation) query(seed int, relaxed bool) string { return o.queryOpt(seed, relaxed, false) }

func (o *Obligation) queryOpt(seed int, relaxed bool, sliced bool) string {
	var b strings.Builder
	b.WriteString("(set-option :produce-models true)\n")
	// The seed never changes the text of a query (an earlier version wrote (set-option :random-seed N),
	// which cvc5 answers with "unsupported" on the first output line, so that its verdicts were ignored
	// whenever a seed was set). A non-zero seed ADDS seeded portfolio members, see SetSeed.
	_ = seed
	b.WriteString("(set-logic ALL)\n")
	sc := o.Script
	for _, p := range sc.prelude {
		b.WriteString(p)
		b.WriteByte('\n')
	}
	var keep map[int]bool
	var epi []string
	for _, e := range o.Epilogue {
		if (o.ExpectSat || relaxed) && strings.Contains(e, "(forall ") {
			continue // reachability witnesses do not need the loop frames
		}
		epi = append(epi, e)
	}
	if sliced {
		sc.mu.Lock()
		goal := []string{o.Reach, o.Goal}
		for _, p := range o.Probes {
			goal = append(goal, p.Term)
		}
		// epilogue lines join the cone when they mention a symbol of it; iterate to a fixpoint
		keep = sc.Slice(o.ScriptLen, goal, nil)
		for changed := true; changed; {
			changed = false
			inCone := map[string]bool{}
			for i := range keep {
				if n := sc.lines[i].name; n != "" {
					inCone[n] = true
				}
			}
			var extra []string
			var rest []string
			for _, e := range epi {
				hit := false
				for _, s := range termSymbols(e) {
					if inCone[s] {
						hit = true
						break
					}
				}
				if hit {
					extra = append(extra, e)
				} else {
					rest = append(rest, e)
				}
			}
			if len(extra) > 0 {
				k2 := sc.Slice(o.ScriptLen, goal, append(extra, o.slicedEpi...))
				if len(k2) > len(keep) {
					changed = true
				}
				keep = k2
				o.slicedEpi = append(o.slicedEpi, extra...)
				epi = rest
			}
		}
		sc.mu.Unlock()
		epi = o.slicedEpi
	}
	for i, l := range sc.lines {
		if l.kind == "assert" && i >= o.ScriptLen {
			continue
		}
		if keep != nil && !keep[i] {
			continue
		}
		if l.lemma && o.ExpectSat {
			continue
		}
		b.WriteString(l.text)
		b.WriteByte('\n')
	}
	for _, e := range epi {
		b.WriteString(e)
		b.WriteByte('\n')
	}
	fmt.Fprintf(&b, "(assert %s)\n", o.Reach)
	fmt.Fprintf(&b, "(assert (not %s))\n", o.Goal)
	b.WriteString("(check-sat)\n")
	if len(o.Probes) > 0 {
		b.WriteString("(get-value (")
		for _, p := range o.Probes {
			b.WriteString(p.Term)
			b.WriteByte(' ')
		}
		b.WriteString("))\n")
	}
	return b.String()
}

var tmpDirOnce sync.Once
var tmpDir string

func scratchDir() string {
	tmpDirOnce.Do(func() {
		d, err := os.MkdirTemp("", "govc-")
		if err != nil {
			d = os.TempDir()
		}
		tmpDir = d
	})
	return tmpDir
}

func CleanupScratch() {
	if tmpDir != "" {
		os.RemoveAll(tmpDir)
	}
}

var fileSeq int
var fileMu sync.Mutex

// Solve races the installed solvers on the query. If all is true every solver is run to
// completion and disagreement between definite answers is reported as an error.
func Solve(query string, timeoutS int, all bool, probes []Probe) SolveResult {
	return solveWith(solvers, query, timeoutS, all, probes)
}

// SolveQuick asks only the first solver: for reachability witnesses, where only a fast definite
// answer is of interest.
func SolveQuick(query string, timeoutS int) SolveResult {
	return solveWith(solvers[:1], query, timeoutS, false, nil)
}

func solveWith(solvers []solverSpec, query string, timeoutS int, all bool, probes []Probe) SolveResult {
	fileMu.Lock()
	fileSeq++
	file := filepath.Join(scratchDir(), fmt.Sprintf("q%d.smt2", fileSeq))
	fileMu.Unlock()
	if err := os.WriteFile(file, []byte(query), 0o644); err != nil {
		return SolveResult{Status: "error", Raw: err.Error()}
	}
	defer os.Remove(file)
	// The budget of a query is CPU time of the solver process (ulimit -t), not wall-clock time: on a
	// loaded machine a starved solver takes longer but is not cut short, so the verdict does not
	// depend on what else is running. The wall-clock limit is only a backstop.
	wallS := timeoutS*wallFactor + 30
	ctx, cancel := context.WithTimeout(context.Background(), time.Duration(wallS)*time.Second)
	defer cancel()
	type one struct {
		name   string
		status string
		out    string
		secs   float64
	}
	ch := make(chan one, len(solvers))
	start := time.Now()
	for _, s := range solvers {
		s := s
		go func() {
			args := s.args(file, wallS)
			sh := fmt.Sprintf("ulimit -t %d; exec \"$@\"", timeoutS)
			cmd := exec.CommandContext(ctx, "sh", append([]string{"-c", sh, "sh"}, args...)...)
			var out bytes.Buffer
			cmd.Stdout = &out
			cmd.Stderr = &out
			t0 := time.Now()
			runErr := cmd.Run()
			txt := out.String()
			killed := false
			if ee, ok := runErr.(*exec.ExitError); ok && ee.ProcessState != nil && !ee.ProcessState.Exited() {
				killed = true // CPU budget exhausted (SIGXCPU/SIGKILL) or cancelled
			}
			// drop solver warnings preceding the answer
			for strings.HasPrefix(txt, "WARNING") || strings.HasPrefix(txt, "(warning") {
				if i := strings.Index(txt, "\n"); i >= 0 {
					txt = txt[i+1:]
				} else {
					break
				}
			}
			for strings.HasPrefix(txt, "unsupported") || strings.HasPrefix(txt, "success") {
				if i := strings.Index(txt, "\n"); i >= 0 {
					txt = txt[i+1:]
				} else {
					break
				}
			}
			first := strings.TrimSpace(strings.SplitN(txt, "\n", 2)[0])
			st := "unknown"
			switch {
			case first == "unsat":
				st = "unsat"
			case first == "sat":
				st = "sat"
			case first == "timeout" || strings.Contains(txt, "timeout") || strings.Contains(txt, "interrupted by timeout"):
				st = "timeout"
			case strings.HasPrefix(first, "(error") || strings.Contains(first, "rror"):
				st = "error"
			}
			if (ctx.Err() != nil || killed) && st != "sat" && st != "unsat" {
				st = "timeout"
			}
			ch <- one{s.name, st, txt, time.Since(t0).Seconds()}
		}()
	}
	res := SolveResult{Status: "unknown", All: map[string]string{}}
	got := 0
	graceStarted := false
	var errs []string
	for got < len(solvers) {
		r := <-ch
		got++
		res.All[r.name] = r.status
		if r.status == "unknown" && len(probes) > 0 && res.Model == nil && res.Status != "sat" && res.Status != "unsat" {
			// cvc5 answers unknown on quantified goals but still prints the candidate model it stopped at
			if m := parseValues(r.out, probes); len(m) > 0 {
				res.Model = m
				res.Relaxed = true
				res.Raw = "candidate model printed by " + r.name + " with its answer `unknown`:\n" + r.out
			}
		}
		if r.status == "error" {
			errs = append(errs, r.name+": "+firstLines(r.out, 3))
		}
		if r.status == "sat" || r.status == "unsat" {
			if res.Status == "sat" || res.Status == "unsat" {
				if res.Status != r.status {
					res.Status = "error"
					res.Raw = fmt.Sprintf("solvers disagree: %s says %s, %s says %s", res.Solver, res.All[res.Solver], r.name, r.status)
					cancel()
					return res
				}
				continue
			}
			res.Status = r.status
			res.Solver = r.name
			res.Seconds = r.secs
			res.Raw = r.out
			if r.status == "sat" && len(probes) > 0 {
				res.Model = parseValues(r.out, probes)
			}
			if !all {
				cancel()
				break
			}
			// cross-check (thorough tier): the other portfolio members get a grace period after the first
			// definite answer - long enough for a second opinion, short enough that a member which cannot
			// decide the goal does not hold every obligation for its full budget
			if !graceStarted {
				graceStarted = true
				grace := time.Duration(2*r.secs*float64(time.Second)) + 5*time.Second
				time.AfterFunc(grace, cancel)
			}
		}
	}
	if res.Status != "sat" && res.Status != "unsat" && res.Status != "error" {
		res.Seconds = time.Since(start).Seconds()
		allTimeout := true
		for _, s := range res.All {
			if s != "timeout" {
				allTimeout = false
			}
		}
		if allTimeout {
			res.Status = "timeout"
		}
		if len(errs) == len(solvers) {
			res.Status = "error"
		}
		res.Raw = strings.Join(errs, "\n")
	}
	return res
}

func firstLines(s string, n int) string {
	ls := strings.Split(s, "\n")
	if len(ls) > n {
		ls = ls[:n]
	}
	return strings.Join(ls, " | ")
}

// parseValues parses the (get-value ...) answer: a list of (term value) pairs in probe order.
func parseValues(out string, probes []Probe) map[string]string {
	i := strings.Index(out, "\n")
	if i < 0 {
		return nil
	}
	body := strings.TrimSpace(out[i+1:])
	if !strings.HasPrefix(body, "(") {
		return nil
	}
	// split top-level pairs
	var pairs []string
	d := 0
	start := -1
	inStr := false
	for k := 0; k < len(body); k++ {
		c := body[k]
		if inStr {
			if c == '"' {
				inStr = false
			}
			continue
		}
		switch c {
		case '"':
			inStr = true
		case '(':
			d++
			if d == 2 {
				start = k
			}
		case ')':
			if d == 2 && start >= 0 {
				pairs = append(pairs, body[start:k+1])
				start = -1
			}
			d--
		}
		if d == 0 && k > 0 {
			break
		}
	}
	m := map[string]string{}
	for idx, p := range pairs {
		if idx >= len(probes) {
			break
		}
		// the value is the last top-level s-expression inside the pair
		inner := strings.TrimSpace(p[1 : len(p)-1])
		val := lastSexp(inner)
		m[probes[idx].Name] = normalizeValue(val)
	}
	return m
}

func lastSexp(s string) string {
	s = strings.TrimSpace(s)
	if s == "" {
		return ""
	}
	end := len(s)
	if s[end-1] == ')' {
		d := 0
		inStr := false
		for k := end - 1; k >= 0; k-- {
			c := s[k]
			if c == '"' {
				inStr = !inStr
				continue
			}
			if inStr {
				continue
			}
			if c == ')' {
				d++
			} else if c == '(' {
				d--
				if d == 0 {
					return s[k:end]
				}
			}
		}
		return s
	}
	if s[end-1] == '"' {
		// string literal: scan back to the opening quote (doubled quotes are escapes)
		k := end - 2
		for k >= 0 {
			if s[k] == '"' {
				if k > 0 && s[k-1] == '"' {
					k -= 2
					continue
				}
				return s[k:end]
			}
			k--
		}
		return s
	}
	k := strings.LastIndexAny(s, " \t\n")
	return s[k+1:]
}

func normalizeValue(v string) string {
	v = strings.TrimSpace(v)
	if strings.HasPrefix(v, "(- ") && strings.HasSuffix(v, ")") {
		return "-" + strings.TrimSpace(v[3:len(v)-1])
	}
	return v
}
