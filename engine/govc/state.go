package govc

import (
	"fmt"
)

// State is the symbolic heap at one program point: a map from heap-array names to SMT terms.
// Names that were never touched are resolved lazily through base (a fresh epoch, or the
// merge of two predecessor states).
type State struct {
	x      *Exec
	heap   map[string]string
	epoch  int    // valid when m == nil
	m      *merge // lazy merge of two states
	loop   *loopBase
	frozen bool
	hav    bool   // some call without a frame havocked the whole heap on a path to this state
	gbase  *State // state before the last whole-heap havoc: ghost names resolve through it
}

func isGhostName(name string) bool {
	return len(name) > 2 && name[1] == ':' && (name[0] == 'G' || name[0] == 'V' || name[0] == 'P')
}

// loopBase makes a state lazily havocked at a loop head: a name read before being written
// resolves to a placeholder which is equated with the pre-loop term after the run if the loop
// body turned out not to write it.
type loopBase struct {
	pre *State
	li  *loopInfo
}

type merge struct {
	cond string // when true: a, else b
	a, b *State
}

func (x *Exec) newEpochState() *State {
	x.epochs++
	return &State{x: x, heap: map[string]string{}, epoch: x.epochs}
}

func (s *State) clone() *State {
	n := &State{x: s.x, heap: make(map[string]string, len(s.heap)+4), epoch: s.epoch, m: s.m, loop: s.loop, hav: s.hav, gbase: s.gbase}
	for k, v := range s.heap {
		n.heap[k] = v
	}
	return n
}

// Get returns the current term of heap array `name` whose SMT sort is `sort`.
func (s *State) Get(name, sort string) string {
	if t, ok := s.heap[name]; ok {
		return t
	}
	s.x.noteArray(name, sort)
	var t string
	if s.gbase != nil && isGhostName(name) {
		t = s.gbase.Get(name, sort)
		s.heap[name] = t
		return t
	}
	if s.loop != nil {
		t = s.x.sc.Declare(fmt.Sprintf("%s@loop%d", name, s.loop.li.id), sort)
		if _, ok := s.loop.li.placeholders[name]; !ok {
			s.loop.li.placeholders[name] = [2]string{t, s.loop.pre.Get(name, sort)}
			s.loop.li.phNames[t] = name
		}
	} else if s.m == nil {
		t = s.x.sc.Declare(fmt.Sprintf("%s@%d", name, s.epoch), sort)
	} else {
		ta := s.m.a.Get(name, sort)
		tb := s.m.b.Get(name, sort)
		if ta == tb {
			t = ta
		} else {
			t = s.x.sc.Define("mrg", sort, Ite(s.m.cond, ta, tb))
		}
	}
	s.heap[name] = t
	return t
}

func (s *State) Set(name, sort, term string) {
	if s.frozen {
		panic("write to frozen state")
	}
	s.x.noteArray(name, sort)
	s.heap[name] = s.x.sc.Define("h", sort, term)
}

// HavocAll forgets everything about the heap except ghost globals listed in keep.
func (s *State) HavocAll(keep []string) {
	saved := map[string]string{}
	for _, k := range keep {
		if sort, ok := s.x.arraySort[k]; ok {
			saved[k] = s.Get(k, sort)
		}
	}
	prev := s.clone()
	prev.frozen = true
	s.x.epochs++
	s.epoch = s.x.epochs
	s.m = nil
	s.loop = nil
	s.hav = true
	s.gbase = prev
	s.heap = saved
}

func (s *State) Havoc(name, sort string) {
	s.x.noteArray(name, sort)
	s.heap[name] = s.x.sc.Fresh("hv", sort)
}

// mergeStates builds the state that equals a when cond holds and b otherwise.
func (x *Exec) mergeStates(cond string, a, b *State) *State {
	if a == b {
		return a.clone()
	}
	a.frozen = true
	b.frozen = true
	n := &State{x: x, heap: map[string]string{}, m: &merge{cond: cond, a: a, b: b}, hav: a.hav || b.hav}
	// eagerly merge names known to either side (keeps terms small and deterministic)
	names := map[string]bool{}
	for k := range a.heap {
		names[k] = true
	}
	for k := range b.heap {
		names[k] = true
	}
	for _, k := range sortedKeys(names) {
		n.Get(k, x.arraySort[k])
	}
	return n
}

func (x *Exec) noteArray(name, sort string) {
	if old, ok := x.arraySort[name]; ok {
		if old != sort {
			panic(fmt.Sprintf("heap array %s used with sorts %s and %s", name, old, sort))
		}
		return
	}
	x.arraySort[name] = sort
}
