package govc

import (
	"fmt"
	"go/constant"
	"go/token"
	"go/types"
	"regexp"
	"regexp/syntax"
	"strings"
	"unicode/utf8"

	"golang.org/x/tools/go/ssa"
)

// Regular expressions are outside the translated subset as code, but the patterns of this
// repository are compile-time constants: the engine parses the constant with Go's own
// regexp/syntax and hands the solver the language of the pattern and of its capture groups as
// SMT-LIB regular expressions. A pattern that is not a constant (built from request text) cannot
// be shown to compile: regexp.MustCompile on it is a safe.* obligation that fails.

// scanRegexpGlobals finds package-level variables initialised once, in init, by
// regexp.MustCompile(<constant>).
func (e *Engine) scanRegexpGlobals() {
	e.regexpGlobals = map[*ssa.Global]string{}
	e.nonNilGlobals = map[*ssa.Global]string{}
	stores := map[*ssa.Global]int{}
	for _, sp := range e.SSAPkgs {
		if !strings.HasPrefix(sp.Pkg.Path(), ModPath) {
			continue
		}
		for _, m := range sp.Members {
			fn, ok := m.(*ssa.Function)
			if !ok {
				continue
			}
			e.scanFuncForGlobalStores(fn, stores)
			for _, af := range fn.AnonFuncs {
				e.scanFuncForGlobalStores(af, stores)
			}
		}
	}
	for g, n := range stores {
		if n != 1 {
			delete(e.regexpGlobals, g)
			delete(e.nonNilGlobals, g)
		}
	}
}

func (e *Engine) scanFuncForGlobalStores(fn *ssa.Function, stores map[*ssa.Global]int) {
	for _, b := range fn.Blocks {
		for _, in := range b.Instrs {
			st, ok := in.(*ssa.Store)
			if !ok {
				continue
			}
			g, ok := st.Addr.(*ssa.Global)
			if !ok {
				continue
			}
			stores[g]++
			if call, ok := st.Val.(*ssa.Call); ok && fn.Name() == "init" {
				if callee := call.Call.StaticCallee(); callee != nil && nonNilConstructors[callee.String()] {
					e.nonNilGlobals[g] = callee.String()
				}
				if callee := call.Call.StaticCallee(); callee != nil && callee.String() == "regexp.MustCompile" && len(call.Call.Args) == 1 {
					if c, ok := call.Call.Args[0].(*ssa.Const); ok && c.Value != nil && c.Value.Kind() == constant.String {
						e.regexpGlobals[g] = constant.StringVal(c.Value)
					}
				}
			}
		}
	}
}

// nonNilConstructors never return nil (assumed, from their source): a package variable assigned
// once, in init, from one of them is assumed non-nil wherever it is read.
var nonNilConstructors = map[string]bool{
	"github.com/onosproject/onos-lib-go/pkg/logging.GetLogger": true,
}

// reToSMT translates a parsed Go regular expression into an SMT-LIB RegLan term.
func reToSMT(re *syntax.Regexp) (string, bool) {
	switch re.Op {
	case syntax.OpEmptyMatch:
		return `(str.to_re "")`, true
	case syntax.OpLiteral:
		var b strings.Builder
		for _, r := range re.Rune {
			if r >= utf8.RuneSelf {
				return "", false
			}
			b.WriteByte(byte(r))
		}
		return "(str.to_re " + StrLit(b.String()) + ")", true
	case syntax.OpCharClass:
		var parts []string
		for i := 0; i+1 < len(re.Rune); i += 2 {
			lo, hi := re.Rune[i], re.Rune[i+1]
			if lo >= 128 {
				continue
			}
			if hi >= 128 {
				hi = 127
			}
			if lo == hi {
				parts = append(parts, "(str.to_re "+StrLit(string(rune(lo)))+")")
			} else {
				parts = append(parts, "(re.range "+StrLit(string(rune(lo)))+" "+StrLit(string(rune(hi)))+")")
			}
		}
		switch len(parts) {
		case 0:
			return "re.none", true
		case 1:
			return parts[0], true
		}
		return "(re.union " + strings.Join(parts, " ") + ")", true
	case syntax.OpAnyCharNotNL, syntax.OpAnyChar:
		return "re.allchar", true
	case syntax.OpBeginLine, syntax.OpBeginText, syntax.OpEndLine, syntax.OpEndText:
		return `(str.to_re "")`, true // anchors are handled by the caller
	case syntax.OpCapture:
		return reToSMT(re.Sub[0])
	case syntax.OpStar:
		s, ok := reToSMT(re.Sub[0])
		return "(re.* " + s + ")", ok
	case syntax.OpPlus:
		s, ok := reToSMT(re.Sub[0])
		return "(re.+ " + s + ")", ok
	case syntax.OpQuest:
		s, ok := reToSMT(re.Sub[0])
		return "(re.opt " + s + ")", ok
	case syntax.OpRepeat:
		s, ok := reToSMT(re.Sub[0])
		if re.Max < 0 {
			return fmt.Sprintf("(re.++ ((_ re.^ %d) %s) (re.* %s))", re.Min, s, s), ok
		}
		return fmt.Sprintf("((_ re.loop %d %d) %s)", re.Min, re.Max, s), ok
	case syntax.OpConcat, syntax.OpAlternate:
		var parts []string
		for _, sub := range re.Sub {
			s, ok := reToSMT(sub)
			if !ok {
				return "", false
			}
			parts = append(parts, s)
		}
		if len(parts) == 1 {
			return parts[0], true
		}
		op := "re.++"
		if re.Op == syntax.OpAlternate {
			op = "re.union"
		}
		return "(" + op + " " + strings.Join(parts, " ") + ")", true
	}
	return "", false
}

func captureGroups(re *syntax.Regexp, out *[]*syntax.Regexp) {
	if re.Op == syntax.OpCapture {
		*out = append(*out, re)
	}
	for _, s := range re.Sub {
		captureGroups(s, out)
	}
}

func anchored(re *syntax.Regexp) (begin, end bool) {
	if re.Op == syntax.OpConcat && len(re.Sub) > 0 {
		b, _ := anchored(re.Sub[0])
		_, e := anchored(re.Sub[len(re.Sub)-1])
		return b, e
	}
	if re.Op == syntax.OpCapture {
		return anchored(re.Sub[0])
	}
	return re.Op == syntax.OpBeginText || re.Op == syntax.OpBeginLine, re.Op == syntax.OpEndText || re.Op == syntax.OpEndLine
}

// regexpCall gives meaning to the regexp functions used by the repository. handled=false leaves the
// call to the generic machinery.
func (f *frame) regexpCall(key string, common *ssa.CallCommon, args []Val, resT types.Type, st *State, reach string, pos token.Pos) (Val, bool) {
	x := f.x
	switch key {
	case "regexp.MustCompile", "regexp.Compile":
		if len(args) != 1 || len(args[0].L) != 1 {
			return Val{}, false
		}
		pat := args[0].L[0]
		lit, isLit := smtStringLiteral(pat)
		x.bumpAlloc(st, reach)
		res := x.freshVal(resT, "re", st, reach)
		target := &res
		if len(res.Tuple) > 0 {
			target = &res.Tuple[0]
		}
		if !isLit {
			if key == "regexp.MustCompile" {
				// panics unless the text happens to be a valid pattern: nothing in the code establishes that
				x.safeCond("false", reach, pos, "regexp-compile-of-request-text")
			}
			return res, true
		}
		if _, err := regexp.Compile(lit); err != nil {
			if key == "regexp.MustCompile" {
				x.safeCond("false", reach, pos, "regexp-constant-does-not-compile")
			}
			return res, true
		}
		x.sc.Assume(reach, Not(Eq(target.L[0], "0")))
		target.Regexp = &lit
		return res, true
	}
	if !strings.HasPrefix(key, "(*regexp.Regexp).") || len(args) < 1 {
		return Val{}, false
	}
	recv := args[0]
	x.safeNonNil(recv.L[0], reach, pos, "nil-deref")
	if recv.Regexp == nil {
		return Val{}, false
	}
	parsed, err := syntax.Parse(*recv.Regexp, syntax.Perl)
	if err != nil {
		return Val{}, false
	}
	whole, ok := reToSMT(parsed)
	if !ok {
		return Val{}, false
	}
	var groups []*syntax.Regexp
	captureGroups(parsed, &groups)
	begin, end := anchored(parsed)
	search := whole
	if !begin {
		search = "(re.++ re.all " + search + ")"
	}
	if !end {
		search = "(re.++ " + search + " re.all)"
	}
	meth := key[len("(*regexp.Regexp)."):]
	allocPre, _ := x.bumpAlloc(st, reach)
	switch meth {
	case "MatchString":
		return Val{Typ: resT, L: []string{x.sc.Define("rematch", "Bool", "(str.in_re "+args[1].L[0]+" "+search+")")}}, true
	case "FindString":
		r := x.freshVal(resT, "refind", st, reach)
		s := args[1].L[0]
		x.sc.Assume(reach, "(str.contains "+s+" "+r.L[0]+")")
		x.sc.Assume(reach, Or(Eq(r.L[0], `""`), "(str.in_re "+r.L[0]+" "+whole+")"))
		x.sc.Assume(reach, Implies("(str.in_re "+s+" "+search+")", Or("(str.in_re "+r.L[0]+" "+whole+")")))
		return r, true
	case "FindStringSubmatch", "FindAllStringSubmatch":
		r := x.freshVal(resT, "resub", st, reach)
		r.L[1] = "0"
		x.sc.Assume(reach, Or(Eq(r.L[0], "0"), "(>= "+r.L[0]+" "+allocPre+")"))
		strSort := "(Array Int (Array Int String))"
		estr := st.Get(x.eName(types.Typ[types.String], ""), strSort)
		n := len(groups) + 1
		groupFacts := func(arr, off string) string {
			// arr/off: the []string holding one match
			var fs []string
			fs = append(fs, "(str.in_re "+Select(Select(estr, arr), off)+" "+whole+")")
			for gi, g := range groups {
				if gs, ok := reToSMT(g.Sub[0]); ok {
					el := Select(Select(estr, arr), add(off, fmt.Sprintf("%d", gi+1)))
					fs = append(fs, Or(Eq(el, `""`), "(str.in_re "+el+" "+gs+")"))
				}
			}
			return And(fs...)
		}
		if meth == "FindStringSubmatch" {
			x.sc.Assume(reach, Or(Eq(r.L[0], "0"), And(Eq(r.L[2], fmt.Sprintf("%d", n)), groupFacts(r.L[0], "0"))))
			x.sc.Assume(reach, Eq(Eq(r.L[0], "0"), Not("(str.in_re "+args[1].L[0]+" "+search+")")))
			return r, true
		}
		// [][]string: every element is a match of n strings
		st3 := "(Array Int (Array Int Int))"
		arrA := st.Get(x.eName(types.NewSlice(types.Typ[types.String]), "#arr"), st3)
		offA := st.Get(x.eName(types.NewSlice(types.Typ[types.String]), "#off"), st3)
		lenA := st.Get(x.eName(types.NewSlice(types.Typ[types.String]), "#len"), st3)
		x.uniq++
		i := sym(fmt.Sprintf("q!i!%d", x.uniq))
		el := func(a string) string { return Select(Select(a, r.L[0]), i) }
		x.sc.Assume(reach, "(forall (("+i+" Int)) (! (=> (and (<= 0 "+i+") (< "+i+" "+r.L[2]+")) "+
			And(Eq(el(lenA), fmt.Sprintf("%d", n)), "(<= 0 "+el(offA)+")", Not(Eq(el(arrA), "0")), groupFacts(el(arrA), el(offA)))+") :pattern ("+el(arrA)+") :pattern ("+el(lenA)+")))")
		return r, true
	case "ReplaceAllString", "String":
		return x.freshVal(resT, "restr", st, reach), true
	}
	return Val{}, false
}

func smtStringLiteral(t string) (string, bool) {
	if len(t) < 2 || t[0] != '"' || t[len(t)-1] != '"' {
		return "", false
	}
	s := t[1 : len(t)-1]
	s = strings.ReplaceAll(s, `""`, `"`)
	var b strings.Builder
	for i := 0; i < len(s); i++ {
		if strings.HasPrefix(s[i:], `\u{`) {
			j := strings.Index(s[i:], "}")
			var n int
			fmt.Sscanf(s[i+3:i+j], "%x", &n)
			b.WriteByte(byte(n))
			i += j
			continue
		}
		b.WriteByte(s[i])
	}
	return b.String(), true
}
