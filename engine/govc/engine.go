package govc

import (
	"fmt"
	"go/types"
	"hash/fnv"
	"os"
	"sort"
	"strings"

	"golang.org/x/tools/go/packages"
	"golang.org/x/tools/go/ssa"
	"golang.org/x/tools/go/ssa/ssautil"
)

const ModPath = "github.com/onosproject/onos-config"

// Engine holds the loaded program and the contracts.
type Engine struct {
	RepoDir       string
	Prog          *ssa.Program
	Pkgs          []*packages.Package
	SSAPkgs       map[string]*ssa.Package
	TypPkgs       map[string]*types.Package
	CS            *ContractSet
	layouts       map[string][]Leaf
	tags          map[string]int
	tagTypes      []types.Type
	tagByID       map[int]types.Type
	regexpGlobals map[*ssa.Global]string
	nonNilGlobals map[*ssa.Global]string
	fnIDs         map[*ssa.Function]int
	globIDs       map[*ssa.Global]int
	funcsByKey    map[string]*ssa.Function
	Overlay       map[string][]byte
	LoadErrs      []string
}

// Load loads /repo's current working tree (with -tags=verif) and builds SSA.
func Load(repoDir string, overlay map[string][]byte, patterns ...string) (*Engine, error) {
	if len(patterns) == 0 {
		patterns = []string{"./pkg/..."}
	}
	cfg := &packages.Config{
		Mode:       packages.LoadAllSyntax,
		Dir:        repoDir,
		BuildFlags: []string{"-tags=verif"},
		Overlay:    overlay,
		Env:        append(os.Environ(), "GOFLAGS=-mod=mod", "GOPROXY=off", "GOSUMDB=off", "GOTOOLCHAIN=local"),
	}
	pkgs, err := packages.Load(cfg, patterns...)
	if err != nil {
		return nil, err
	}
	e := &Engine{RepoDir: repoDir, Pkgs: pkgs, SSAPkgs: map[string]*ssa.Package{}, TypPkgs: map[string]*types.Package{},
		layouts: map[string][]Leaf{}, tags: map[string]int{}, fnIDs: map[*ssa.Function]int{}, globIDs: map[*ssa.Global]int{},
		funcsByKey: map[string]*ssa.Function{}, Overlay: overlay, tagByID: map[int]types.Type{}}
	packages.Visit(pkgs, nil, func(p *packages.Package) {
		for _, er := range p.Errors {
			if strings.HasPrefix(p.PkgPath, ModPath) {
				e.LoadErrs = append(e.LoadErrs, er.Error())
			}
		}
		if p.Types != nil {
			e.TypPkgs[p.PkgPath] = p.Types
		}
	})
	if len(e.LoadErrs) > 0 {
		return e, fmt.Errorf("repository does not type-check: %s", strings.Join(e.LoadErrs, "; "))
	}
	prog, _ := ssautil.AllPackages(pkgs, ssa.InstantiateGenerics|ssa.GlobalDebug)
	prog.Build()
	e.Prog = prog
	for _, sp := range prog.AllPackages() {
		e.SSAPkgs[sp.Pkg.Path()] = sp
	}
	for fn := range ssautil.AllFunctions(prog) {
		if fn.Pkg == nil && fn.Synthetic == "" {
			continue
		}
		e.funcsByKey[fn.String()] = fn
	}
	e.tagTypes = append(e.tagTypes, nil) // tag 0 = nil interface
	e.scanRegexpGlobals()
	return e, nil
}

func (e *Engine) LoadContracts(libDir string) error {
	e.CS = NewContractSet()
	if err := e.CS.LoadLibSpecs(libDir); err != nil {
		return err
	}
	if err := e.CS.LoadRepoContracts(e.RepoDir, ModPath); err != nil {
		return err
	}
	// ghost fields are declared as "alias.Type.field": re-key them by the engine's type key
	orig := map[string]*GhostVar{}
	for name, g := range e.CS.Ghosts {
		orig[name] = g
	}
	for name, g := range orig {
		i := strings.LastIndex(name, ".")
		if i < 0 {
			continue
		}
		t, err := e.lookupType(name[:i], g.Imports, g.PkgPath)
		if err != nil {
			return fmt.Errorf("ghost field %s: %v", name, err)
		}
		delete(e.CS.Ghosts, name)
		g.Name = e.typeKey(t) + "." + name[i+1:]
		e.CS.Ghosts[g.Name] = g
	}
	return nil
}

func (e *Engine) FuncByKey(key string) *ssa.Function { return e.funcsByKey[key] }

// tagOf interns the dynamic-type tag of t. Tags are derived from a hash of the type's name, not from
// the order in which types are met: the constants in a query must not depend on which other
// functions were translated before (solver behaviour on quantified goals is sensitive to them).
func (e *Engine) tagOf(t types.Type) int {
	k := e.typeKey(t)
	if id, ok := e.tags[k]; ok {
		return id
	}
	h := fnv.New32a()
	h.Write([]byte(k))
	id := int(h.Sum32()%900000) + 1000
	for e.tagByID[id] != nil {
		id++ // collision: next free slot (deterministic given the same set of types is rare enough; the map keeps it sound)
	}
	e.tags[k] = id
	e.tagByID[id] = t
	return id
}

func (e *Engine) typeOfTag(id int) types.Type { return e.tagByID[id] }

func (e *Engine) fnID(f *ssa.Function) int {
	if id, ok := e.fnIDs[f]; ok {
		return id
	}
	id := len(e.fnIDs) + 1
	e.fnIDs[f] = id
	return id
}

func (e *Engine) globID(g *ssa.Global) int {
	if id, ok := e.globIDs[g]; ok {
		return id
	}
	id := len(e.globIDs) + 1
	e.globIDs[g] = id
	return id
}

const maxGlobals = 100000

// lookupType resolves a type written in a contract ("configapi.Index", "*configapi.Proposal_Change",
// "string", "int", "Reconciler") against imports / the current package.
func (e *Engine) lookupType(name string, imports map[string]string, pkgPath string) (types.Type, error) {
	name = strings.TrimSpace(name)
	if strings.HasPrefix(name, "*") {
		t, err := e.lookupType(name[1:], imports, pkgPath)
		if err != nil {
			return nil, err
		}
		return types.NewPointer(t), nil
	}
	if strings.HasPrefix(name, "[]") {
		t, err := e.lookupType(name[2:], imports, pkgPath)
		if err != nil {
			return nil, err
		}
		return types.NewSlice(t), nil
	}
	if strings.HasPrefix(name, "map[") {
		d := 0
		for i := 3; i < len(name); i++ {
			if name[i] == '[' {
				d++
			} else if name[i] == ']' {
				d--
				if d == 0 {
					k, err := e.lookupType(name[4:i], imports, pkgPath)
					if err != nil {
						return nil, err
					}
					v, err := e.lookupType(name[i+1:], imports, pkgPath)
					if err != nil {
						return nil, err
					}
					return types.NewMap(k, v), nil
				}
			}
		}
		return nil, fmt.Errorf("bad map type %q", name)
	}
	if i := strings.LastIndex(name, "."); i >= 0 {
		alias, id := name[:i], name[i+1:]
		path, ok := imports[alias]
		if !ok {
			path = alias
		}
		p := e.TypPkgs[path]
		if p == nil {
			return nil, fmt.Errorf("unknown package %q in type %q", alias, name)
		}
		o := p.Scope().Lookup(id)
		if tn, ok := o.(*types.TypeName); ok {
			return tn.Type(), nil
		}
		return nil, fmt.Errorf("unknown type %q", name)
	}
	if o := types.Universe.Lookup(name); o != nil {
		if tn, ok := o.(*types.TypeName); ok {
			return tn.Type(), nil
		}
	}
	if p := e.TypPkgs[pkgPath]; p != nil {
		if tn, ok := p.Scope().Lookup(name).(*types.TypeName); ok {
			return tn.Type(), nil
		}
	}
	return nil, fmt.Errorf("unknown type %q", name)
}

// FunctionsUnderContract lists (sorted) keys of repo contracts that are not trusted.
func (e *Engine) FunctionsUnderContract() []string {
	var out []string
	for k, c := range e.CS.ByKey {
		if c.Kind == "func" && !c.Trusted {
			out = append(out, k)
		}
	}
	sort.Strings(out)
	return out
}
