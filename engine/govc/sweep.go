package govc

import (
	"fmt"
	"os"
	"sort"
	"strings"

	"golang.org/x/tools/go/ssa"
)

// reachableRepoFuncs returns the functions of the repository reachable through static calls (and
// closures) from the given roots.
func (e *Engine) reachableRepoFuncs(roots []*ssa.Function) []*ssa.Function {
	seen := map[*ssa.Function]bool{}
	var work []*ssa.Function
	push := func(f *ssa.Function) {
		if f == nil || seen[f] || len(f.Blocks) == 0 {
			return
		}
		pkg := ""
		if f.Pkg != nil {
			pkg = f.Pkg.Pkg.Path()
		} else if f.Parent() != nil && f.Parent().Pkg != nil {
			pkg = f.Parent().Pkg.Pkg.Path()
		}
		if !strings.HasPrefix(pkg, ModPath) {
			return
		}
		seen[f] = true
		work = append(work, f)
	}
	for _, r := range roots {
		push(r)
	}
	for len(work) > 0 {
		f := work[len(work)-1]
		work = work[:len(work)-1]
		for _, b := range f.Blocks {
			for _, in := range b.Instrs {
				if c, ok := in.(ssa.CallInstruction); ok {
					push(c.Common().StaticCallee())
				}
				if mc, ok := in.(*ssa.MakeClosure); ok {
					if fn, ok := mc.Fn.(*ssa.Function); ok {
						push(fn)
					}
				}
			}
		}
	}
	var out []*ssa.Function
	for f := range seen {
		out = append(out, f)
	}
	sort.Slice(out, func(i, j int) bool { return out[i].String() < out[j].String() })
	return out
}

// cmdSweep: zero-annotation no-panic sweep of every function reachable from the handlers, each
// verified on its own with arbitrary (type-valid) arguments. Exploratory: prints which functions
// have undischarged safe.* obligations.
func cmdSweep(args []string) int {
	e, err := loadAll()
	if err != nil {
		fmt.Fprintln(os.Stderr, err)
		return 2
	}
	var roots []*ssa.Function
	for _, pat := range args {
		for k, f := range e.funcsByKey {
			if strings.Contains(k, pat) {
				roots = append(roots, f)
			}
		}
	}
	fns := e.reachableRepoFuncs(roots)
	fmt.Printf("%d functions reachable\n", len(fns))
	for _, fn := range fns {
		c := e.CS.ByKey[fn.String()]
		var cc Contract
		if c != nil {
			cc = *c
		} else {
			cc = Contract{Kind: "func", Key: fn.String(), Display: fn.String(), Invariants: map[int][]*Clause{}, BackEdges: map[int][]*Clause{}, PkgPath: pkgPathOf(fn), Imports: map[string]string{}}
		}
		cc.Safe = true
		cc.Ensures = nil
		cc.HasModifies = false
		x := e.NewExec(fn, &cc)
		obls, err := x.VerifyRoot()
		if err != nil {
			fmt.Printf("ERR   %s: %v\n", shortKey(fn.String()), err)
			continue
		}
		var safe []*Obligation
		for _, o := range obls {
			if o.Kind == "safe" {
				safe = append(safe, o)
			}
		}
		rs := solveAll(safe, 8, false, 0)
		bad := 0
		var names []string
		for i, o := range safe {
			if rs[i].Status != "unsat" {
				bad++
				names = append(names, fmt.Sprintf("%s[%s]", o.Name[strings.Index(o.Name, "#")+1:], rs[i].Status))
			}
		}
		if bad == 0 {
			fmt.Printf("CLEAN %s (%d safe obligations)\n", shortKey(fn.String()), len(safe))
		} else {
			fmt.Printf("OPEN  %s: %d of %d: %s\n", shortKey(fn.String()), bad, len(safe), truncate(strings.Join(names, " "), 400))
		}
	}
	return 0
}

func pkgPathOf(fn *ssa.Function) string {
	if fn.Pkg != nil {
		return fn.Pkg.Pkg.Path()
	}
	if fn.Parent() != nil {
		return pkgPathOf(fn.Parent())
	}
	return ""
}
